//! C20: group arithmetic, encodings, secret sharing and key derivation.
//!
//! Oracles:
//!  * multiexp / mul_by_scalar / Pedersen commitments: own MSB-first
//!    double-and-add over `double_point`/`plus_point`, summed naively;
//!  * decoders: an independent classification of each candidate byte string
//!    (BLS12-381 G1/G2 with arkworks *field* arithmetic: flags, x < p, curve
//!    equation, y selection, r*P == 0 by plain double-and-add; Ristretto: the
//!    RFC 9496 decoding procedure transcribed over `num-bigint`; scalars:
//!    integer < group order) - accept iff canonical, on curve, in the
//!    prime-order subgroup; accepted strings must re-encode to themselves;
//!  * hash_to_group: two calls agree, r * P == identity, encoding classified
//!    valid;
//!  * secret sharing: Lagrange interpolation over `num-bigint`, polynomial
//!    evaluation of the returned coefficients;
//!  * key derivation: own SLIP-0010 (HMAC-SHA512) and IETF BLS KeyGen
//!    (draft-irtf-cfrg-bls-signature-04 section 2.3, HKDF-SHA256) transcriptions
//!    and the published SLIP-0010 ed25519 test vector 1.
//!
//! D (deliberately not demanded):
//!  * "fewer shares reconstruct an unrelated value" is checked as "!= secret"
//!    (false alarm probability about 2^-250, accepted);
//!  * share points are distinct and non-zero (documented precondition);
//!  * distinctness of hash_to_group outputs;
//!  * derivation paths of the wallet getters other than the account signing
//!    key are not compared with the independent SLIP-0010 (their paths are not
//!    documented in the API); they are checked for determinism, sensitivity and
//!    distinctness; wallet behaviour for indices >= 2^31 is only counted;
//!  * BIP-39 `words_to_seed`;
//!  * `GenericMultiExp` is only used inside its documented assumptions
//!    (len(exps) == len(points), 1 <= window < 62);
//!  * a panic on an in-domain input is a violation (kind "panic"), see `lib`.
use crate::common::*;
use ark_bls12_381::{Fq, Fq2, Fr, G1Affine, G2Affine};
use ark_ec::AffineRepr;
use ark_ff::{Field as AField, PrimeField as APrimeField, Zero as AZero};
use concordium_base::{
    common::{from_bytes, to_bytes, Deserial},
    curve_arithmetic::{multiexp, Curve, Field, GenericMultiExp, MultiExp, PrimeField},
    id::{
        constants::{ArCurve, BlsG2},
        secret_sharing::{reveal, reveal_in_group, share, Threshold},
    },
    pedersen_commitment::{CommitmentKey, Value as PValue, VecCommitmentKey},
};
use curve25519_dalek::ristretto::RistrettoPoint;
use num_bigint::BigUint;
use num_traits::One;
use vmon_core::{json, ChildCtx, Rng, Shard, Value};

fn broken() -> bool { std::env::var_os("VMON_BREAK_C20").is_some() }

struct J<'a> {
    sh:        &'a mut Shard,
    idx:       u64,
    replaying: bool,
    sampled:   bool,
}

impl J<'_> {
    fn check(&mut self, what: &str, ok: bool, detail: impl FnOnce() -> (String, Value)) {
        self.sh.evaluations += 1;
        self.sh.hit(what);
        if self.replaying {
            println!("  {} ok={}", what, ok);
        }
        let want_sample = !self.sampled && self.sh.samples.len() < 3;
        if !ok || want_sample {
            let (d, case) = detail();
            if want_sample && !case.is_null() {
                self.sampled = true;
                self.sh.samples.push(json!({"judgement": what, "held": ok, "case": case.clone()}));
            }
            if ok {
                return;
            }
            let sig = format!("c20:{}:{:016x}", what, vmon_core::fnv(case.to_string().as_bytes()));
            let kind = what.split('.').next().unwrap_or("c20").to_string();
            self.sh.violate(self.idx, &kind, sig, format!("{}: {}", what, d), case);
        }
    }

    /// Like `check` with a caller-supplied, witness-exact signature (used for
    /// pinned witnesses so that known-findings matching is stable).
    fn check_pinned(&mut self, what: &str, ok: bool, signature: String, detail: String, case: Value) {
        self.sh.evaluations += 1;
        self.sh.hit(what);
        if !ok {
            let kind = what.split('.').next().unwrap_or("c20").to_string();
            self.sh.violate(self.idx, &kind, signature, format!("{}: {}", what, detail), case);
        }
    }

    /// A library operation panicked on an input inside its documented domain:
    /// violation of kind "panic" with the input as witness.
    fn panicked(&mut self, what: &str, msg: &str, case: Value) {
        self.sh.evaluations += 1;
        self.sh.hit(&format!("panic.{}", what));
        let sig = format!("c20:panic:{}:{:016x}", what, vmon_core::fnv(case.to_string().as_bytes()));
        self.sh.violate(self.idx, "panic", sig, format!("{} panicked on an in-domain input: {}", what, msg), case);
    }

    /// Run a library call; a panic is reported as a violation and yields None.
    fn lib<T>(&mut self, what: &str, case: impl FnOnce() -> Value, f: impl FnOnce() -> T) -> Option<T> {
        match vmon_core::catch(f) {
            Ok(v) => Some(v),
            Err(m) => {
                self.panicked(what, &m, case());
                None
            }
        }
    }

    #[allow(dead_code)]
    fn inconclusive(&mut self, m: String) {
        if self.sh.inconclusive.len() < 5 {
            self.sh.inconclusive.push(m);
        }
    }
}

// ------------------------------------------------------------ generic helpers

fn big_from_limbs(l: &[u64]) -> BigUint {
    let mut b = vec![];
    for x in l {
        b.extend_from_slice(&x.to_le_bytes());
    }
    BigUint::from_bytes_le(&b)
}

fn limbs_from_big(b: &BigUint, n: usize) -> Vec<u64> {
    let mut bytes = b.to_bytes_le();
    bytes.resize(n * 8, 0);
    bytes.chunks(8).map(|c| u64::from_le_bytes(c.try_into().unwrap())).collect()
}

fn order<C: Curve>() -> BigUint {
    let mut x = C::Scalar::zero();
    x.sub_assign(&C::Scalar::one());
    big_from_limbs(&x.into_repr()) + BigUint::one()
}

fn scalar_from_big<C: Curve>(b: &BigUint, ord: &BigUint) -> C::Scalar {
    let n = C::Scalar::zero().into_repr().len();
    C::Scalar::from_repr(&limbs_from_big(&(b % ord), n)).expect("reduced value is a scalar")
}

fn scalar_big<C: Curve>(s: &C::Scalar) -> BigUint { big_from_limbs(&s.into_repr()) }

/// Reference scalar multiplication: MSB-first double-and-add.
fn ref_mul<C: Curve>(p: &C, e: &BigUint) -> C {
    let mut acc = C::zero_point();
    for i in (0..e.bits()).rev() {
        acc = acc.double_point();
        if e.bit(i) {
            acc = acc.plus_point(p);
        }
    }
    acc
}

fn ones(from: u64, len: u64) -> BigUint { ((BigUint::one() << len) - BigUint::one()) << from }

/// Boundary-weighted scalar (as an integer below the group order).
fn gen_scalar(r: &mut Rng, ord: &BigUint, nbits: u64) -> (&'static str, BigUint) {
    let rnd = |r: &mut Rng| BigUint::from_bytes_le(&r.bytes(40)) % ord;
    let (name, v) = match r.below(16) {
        0 => ("zero", BigUint::zero()),
        1 => ("one", BigUint::one()),
        2 => ("order-1", ord - BigUint::one()),
        3 => ("order-small", ord - BigUint::from(r.range(2, 70000))),
        4 => ("pow2-1", (BigUint::one() << r.range(1, nbits)) - BigUint::one()),
        5 => ("pow2", BigUint::one() << r.range(1, nbits)),
        6 => {
            // one all-ones window crossing a 64-bit limb boundary
            let limb = r.range(1, 3);
            let a = r.range(1, 9);
            let b = r.range(1, 9);
            ("ones-crossing-limb", ones(64 * limb - a, a + b))
        }
        7 => {
            let a = r.range(1, 9);
            let b = r.range(1, 9);
            ("ones-crossing-all-limbs", ones(64 - a, a + b) + ones(128 - a, a + b) + ones(192 - a, a + b))
        }
        8 => ("all-ones", (BigUint::one() << 256u32) - BigUint::one()),
        9 => {
            let mut l = limbs_from_big(&rnd(r), 4);
            l[r.below(4) as usize] = u64::MAX;
            ("limb-max", big_from_limbs(&l))
        }
        10 => {
            let mut l = limbs_from_big(&rnd(r), 4);
            l[r.below(4) as usize] = 0;
            ("limb-zero", big_from_limbs(&l))
        }
        11 => ("small", BigUint::from(r.u64v())),
        12 => {
            // alternating window patterns
            let w = r.range(2, 8);
            let mut v = BigUint::zero();
            let mut pos = r.below(w);
            while pos + w < nbits {
                v += ones(pos, w);
                pos += 2 * w;
            }
            ("alternating-windows", v)
        }
        _ => ("random", rnd(r)),
    };
    (name, v % ord)
}

// ------------------------------------------------------------ multiexp

fn case_multiexp<C: Curve>(j: &mut J, r: &mut Rng, cr: &mut CR, curve: &str, max_window: usize) -> u64 {
    let ord = order::<C>();
    let nbits = C::Scalar::NUM_BITS as u64;
    let n = match r.below(8) {
        0 => 0,
        1 => 1,
        2 => 2,
        3 => r.range(30, 40),
        _ => r.range(0, 40),
    } as usize;
    let mut gs: Vec<C> = vec![];
    let mut es: Vec<BigUint> = vec![];
    let mut kinds = vec![];
    for i in 0..n {
        let g = match r.below(10) {
            0 => C::zero_point(),
            1 => C::one_point(),
            2 if i > 0 => gs[r.below(i as u64) as usize],
            3 if i > 0 => gs[i - 1].inverse_point(),
            _ => C::generate(cr),
        };
        gs.push(g);
        let (k, e) = if i > 0 && r.chance(1, 10) { ("repeat", es[i - 1].clone()) } else { gen_scalar(r, &ord, nbits) };
        j.sh.hit(&format!("scalar.{}", k));
        kinds.push(k);
        es.push(e);
    }
    let scalars: Vec<C::Scalar> = es.iter().map(|e| scalar_from_big::<C>(e, &ord)).collect();
    let case = |got: &C, want: &C, how: &str| {
        json!({"curve": curve, "how": how, "points": gs.iter().map(|g| hex(&to_bytes(g))).collect::<Vec<_>>(), "scalars": scalars.iter().map(|s| hex(&to_bytes(s))).collect::<Vec<_>>(), "scalar_kinds": kinds.clone(), "library": hex(&to_bytes(got)), "reference": hex(&to_bytes(want))})
    };
    // reference
    let terms: Vec<C> = gs.iter().zip(es.iter()).map(|(g, e)| ref_mul(g, e)).collect();
    let mut want = terms.iter().fold(C::zero_point(), |a, t| a.plus_point(t));
    if broken() && n > 0 {
        want = want.plus_point(&C::one_point());
    }
    // scalar round trip through the field representation
    for (s, e) in scalars.iter().zip(es.iter()).take(4) {
        j.check(&format!("scalar.repr.{}", curve), &scalar_big::<C>(s) == e, || ("into_repr(from_repr(x)) != x".into(), json!({"curve": curve, "x": e.to_str_radix(16)})));
    }
    // mul_by_scalar against double-and-add
    for i in 0..n.min(3) {
        let got = match vmon_core::catch(|| gs[i].mul_by_scalar(&scalars[i])) {
            Ok(g) => g,
            Err(m) => {
                j.panicked(&format!("mul_by_scalar.{}", curve), &m, json!({"curve": curve, "point": hex(&to_bytes(&gs[i])), "scalar": hex(&to_bytes(&scalars[i]))}));
                continue;
            }
        };
        j.check(&format!("mul_by_scalar.{}", curve), got == terms[i], || ("mul_by_scalar differs from double-and-add".into(), json!({"curve": curve, "point": hex(&to_bytes(&gs[i])), "scalar": hex(&to_bytes(&scalars[i])), "library": hex(&to_bytes(&got)), "reference": hex(&to_bytes(&terms[i]))})));
    }
    // the curve's own multiexp
    match vmon_core::catch(|| multiexp::<C, C>(&gs, &scalars)) {
        Ok(got) => j.check(&format!("multiexp.default.{}", curve), got == want, || ("multiexp differs from the naive sum".into(), case(&got, &want, "curve_arithmetic::multiexp"))),
        Err(m) => j.panicked(&format!("multiexp.default.{}", curve), &m, json!({"curve": curve, "points": gs.iter().map(|g| hex(&to_bytes(g))).collect::<Vec<_>>(), "scalars": scalars.iter().map(|s| hex(&to_bytes(s))).collect::<Vec<_>>()})),
    }
    j.sh.hit(&format!("multiexp.len.{}", if n == 0 { "0".to_string() } else if n < 3 { "1-2".to_string() } else if n < 30 { "3-29".to_string() } else { "30-40".to_string() }));
    // the generic wNAF implementation at several window sizes
    let mut ws: Vec<usize> = vec![4];
    for _ in 0..2 {
        ws.push(r.range(1, max_window as u64) as usize);
    }
    for w in ws {
        match vmon_core::catch(|| GenericMultiExp::<C>::new(&gs, w).multiexp(&scalars)) {
            Ok(got) => j.check(&format!("multiexp.generic.w{}.{}", w, curve), got == want, || (format!("GenericMultiExp with window {} differs from the naive sum", w), case(&got, &want, &format!("GenericMultiExp window {}", w)))),
            Err(m) => j.panicked(&format!("multiexp.generic.w{}.{}", w, curve), &m, json!({"curve": curve, "window": w, "points": gs.iter().map(|g| hex(&to_bytes(g))).collect::<Vec<_>>(), "scalars": scalars.iter().map(|s| hex(&to_bytes(s))).collect::<Vec<_>>()})),
        }
    }
    j.sh.max("max.multiexp_len", n as u64);
    vmon_core::fnv(&to_bytes(&want)) ^ n as u64
}

fn case_pedersen<C: Curve>(j: &mut J, r: &mut Rng, cr: &mut CR, curve: &str) -> u64 {
    let ord = order::<C>();
    let nbits = C::Scalar::NUM_BITS as u64;
    let ck = CommitmentKey::<C>::new(C::generate(cr), C::generate(cr));
    let (_, v) = gen_scalar(r, &ord, nbits);
    let (_, mut rnd) = gen_scalar(r, &ord, nbits);
    let want = ref_mul(&ck.g, &v).plus_point(&ref_mul(&ck.h, &rnd));
    let mut h = vmon_core::fnv(&to_bytes(&want));
    let ckcase = || json!({"curve": curve, "g": hex(&to_bytes(&ck.g)), "h": hex(&to_bytes(&ck.h)), "v": v.to_str_radix(16), "r": rnd.to_str_radix(16)});
    if let Some(got) = j.lib(&format!("pedersen.hide.{}", curve), ckcase, || ck.hide_worker(&scalar_from_big::<C>(&v, &ord), &scalar_from_big::<C>(&rnd, &ord)).0) {
        j.check(&format!("pedersen.hide.{}", curve), got == want, || ("commitment differs from v*g + r*h".into(), json!({"key": ckcase(), "library": hex(&to_bytes(&got)), "reference": hex(&to_bytes(&want))})));
    }
    // vector commitments: k = 0..=n values under an n-base key, and one value too many
    let n = r.range(0, 5) as usize;
    let vk = VecCommitmentKey::<C>::new((0..n).map(|_| C::generate(cr)).collect(), C::generate(cr));
    if rnd.is_zero() {
        rnd = BigUint::one(); // commit(v; r) vs commit(v || r; 0) needs r != 0
    }
    let rnd_s = scalar_from_big::<C>(&rnd, &ord);
    let all: Vec<BigUint> = (0..n + 1).map(|_| gen_scalar(r, &ord, nbits).1).collect();
    for k in 0..=n + 1 {
        let vals = &all[..k];
        let svals: Vec<C::Scalar> = vals.iter().map(|v| scalar_from_big::<C>(v, &ord)).collect();
        let vcase = || json!({"curve": curve, "generators": vk.gs.iter().map(|g| hex(&to_bytes(g))).collect::<Vec<_>>(), "h": hex(&to_bytes(&vk.h)), "values": vals.iter().map(|v| v.to_str_radix(16)).collect::<Vec<_>>(), "r": rnd.to_str_radix(16)});
        let what = format!("pedersen.vec.{}", curve);
        let got = match j.lib(&what, vcase, || vk.hide_worker(&svals, &rnd_s)) {
            Some(g) => g,
            None => continue,
        };
        j.sh.hit(&format!("pedersen.vec.values_{}", if k == 0 { "0" } else if k < n { "fewer" } else if k == n { "all" } else { "too_many" }));
        if k > n {
            j.check(&format!("pedersen.vec.too_long.{}", curve), got.is_none(), || ("hide_worker produced a commitment for more values than generators".into(), vcase()));
            continue;
        }
        let mut want = ref_mul(&vk.h, &rnd);
        for (g, v) in vk.gs.iter().zip(vals.iter()) {
            want = want.plus_point(&ref_mul(g, v));
        }
        if broken() && k < n {
            want = want.plus_point(&C::one_point());
        }
        h ^= vmon_core::fnv(&to_bytes(&want));
        let got_pt = got.map(|c| c.0);
        j.check(&what, got_pt == Some(want), || (format!("vector commitment to {} of {} values differs from sum v_i*g_i + r*h", k, n), json!({"case": vcase(), "library": got_pt.map(|p| hex(&to_bytes(&p))), "reference": hex(&to_bytes(&want))})));
        // the randomness must go to h, not to the next free generator
        if k < n {
            let mut ext = svals.clone();
            ext.push(rnd_s);
            if let Some(Some(other)) = j.lib(&what, vcase, || vk.hide_worker(&ext, &C::Scalar::zero())) {
                j.check(&format!("pedersen.vec.randomness_base.{}", curve), Some(other.0) != got_pt, || ("commit(v; r) equals commit(v || r; 0): the randomness was committed under the next generator instead of h".into(), vcase()));
            }
        }
        // open accepts exactly this commitment
        if let Some(c) = got {
            if let Some(ok) = j.lib(&what, vcase, || vk.open(&svals, &concordium_base::pedersen_commitment::Randomness::<C>::new(rnd_s), &c)) {
                j.check(&format!("pedersen.vec.open.{}", curve), ok, || ("open rejects the commitment it just produced".into(), vcase()));
            }
        }
    }
    h
}

// ------------------------------------------------------------ decoders

fn p_big() -> BigUint { BigUint::from(<Fq as APrimeField>::MODULUS) }

fn fq_big(x: &Fq) -> BigUint { BigUint::from(x.into_bigint()) }

/// Independent classification of a 48-byte string as a compressed G1 element.
fn classify_g1(b: &[u8]) -> (&'static str, bool) {
    let (c, inf, sort) = (b[0] >> 7 & 1, b[0] >> 6 & 1, b[0] >> 5 & 1);
    if c == 0 {
        return ("compression-flag-unset", false);
    }
    let mut xb = b.to_vec();
    xb[0] &= 0x1f;
    if inf == 1 {
        return if sort == 0 && xb.iter().all(|x| *x == 0) { ("infinity", true) } else { ("noncanonical-infinity", false) };
    }
    let x = BigUint::from_bytes_be(&xb);
    if x >= p_big() {
        return ("x-not-below-p", false);
    }
    let xf = Fq::from(x);
    let y2 = xf * xf * xf + Fq::from(4u64);
    let y = match y2.sqrt() {
        None => return ("off-curve", false),
        Some(y) => y,
    };
    let (lo, hi) = if fq_big(&y) > fq_big(&(-y)) { (-y, y) } else { (y, -y) };
    let pt = G1Affine::new_unchecked(xf, if sort == 1 { hi } else { lo });
    if pt.mul_bigint(<Fr as APrimeField>::MODULUS).is_zero() {
        ("valid", true)
    } else {
        ("not-in-subgroup", false)
    }
}

fn fq2_key(y: &Fq2) -> (BigUint, BigUint) { (fq_big(&y.c1), fq_big(&y.c0)) }

/// Independent classification of a 96-byte string as a compressed G2 element.
fn classify_g2(b: &[u8]) -> (&'static str, bool) {
    let (c, inf, sort) = (b[0] >> 7 & 1, b[0] >> 6 & 1, b[0] >> 5 & 1);
    if c == 0 {
        return ("compression-flag-unset", false);
    }
    let mut xb = b.to_vec();
    xb[0] &= 0x1f;
    if inf == 1 {
        return if sort == 0 && xb.iter().all(|x| *x == 0) { ("infinity", true) } else { ("noncanonical-infinity", false) };
    }
    let c1 = BigUint::from_bytes_be(&xb[..48]);
    let c0 = BigUint::from_bytes_be(&xb[48..]);
    if c1 >= p_big() || c0 >= p_big() {
        return ("x-not-below-p", false);
    }
    let xf = Fq2::new(Fq::from(c0), Fq::from(c1));
    let y2 = xf * xf * xf + Fq2::new(Fq::from(4u64), Fq::from(4u64));
    let y = match y2.sqrt() {
        None => return ("off-curve", false),
        Some(y) => y,
    };
    let (lo, hi) = if fq2_key(&y) > fq2_key(&(-y)) { (-y, y) } else { (y, -y) };
    let pt = G2Affine::new_unchecked(xf, if sort == 1 { hi } else { lo });
    if pt.mul_bigint(<Fr as APrimeField>::MODULUS).is_zero() {
        ("valid", true)
    } else {
        ("not-in-subgroup", false)
    }
}

// --- Ristretto255 decoding per RFC 9496 section 4.3.1 over num-bigint
pub(crate) fn p25519() -> BigUint { (BigUint::one() << 255u32) - BigUint::from(19u32) }

pub(crate) fn fneg(a: &BigUint, p: &BigUint) -> BigUint { (p - (a % p)) % p }

pub(crate) fn is_neg(a: &BigUint) -> bool { a.bit(0) }

pub(crate) fn fabs(a: &BigUint, p: &BigUint) -> BigUint {
    if is_neg(a) {
        fneg(a, p)
    } else {
        a.clone()
    }
}

/// (was_square, sqrt(u/v) or sqrt(i*u/v)), non-negative root
pub(crate) fn sqrt_ratio_m1(u: &BigUint, v: &BigUint, p: &BigUint) -> (bool, BigUint) {
    let sqrt_m1 = BigUint::from(2u32).modpow(&((p - BigUint::one()) / BigUint::from(4u32)), p);
    let v3 = v * v % p * v % p;
    let v7 = &v3 * &v3 % p * v % p;
    let mut r = u * &v3 % p * (u * &v7 % p).modpow(&((p - BigUint::from(5u32)) / BigUint::from(8u32)), p) % p;
    let check = v * (&r * &r % p) % p;
    let u = u % p;
    let neg_u = fneg(&u, p);
    let correct = check == u;
    let flipped = check == neg_u;
    let flipped_i = check == &neg_u * &sqrt_m1 % p;
    if flipped || flipped_i {
        r = r * &sqrt_m1 % p;
    }
    (correct || flipped, fabs(&r, p))
}

fn classify_ristretto(b: &[u8]) -> (&'static str, bool) {
    let p = p25519();
    let s = BigUint::from_bytes_le(b);
    if s >= p {
        return ("s-not-below-p", false);
    }
    if is_neg(&s) {
        return ("s-negative", false);
    }
    // d = -121665/121666
    let d = fneg(&(BigUint::from(121665u32) * BigUint::from(121666u32).modpow(&(&p - BigUint::from(2u32)), &p) % &p), &p);
    let one = BigUint::one();
    let ss = &s * &s % &p;
    let u1 = (&one + fneg(&ss, &p)) % &p;
    let u2 = (&one + &ss) % &p;
    let u2_sqr = &u2 * &u2 % &p;
    let v = (fneg(&(&d * (&u1 * &u1 % &p) % &p), &p) + fneg(&u2_sqr, &p)) % &p;
    let (was_square, invsqrt) = sqrt_ratio_m1(&one, &(&v * &u2_sqr % &p), &p);
    let den_x = &invsqrt * &u2 % &p;
    let den_y = &invsqrt * &den_x % &p * &v % &p;
    let x = fabs(&(BigUint::from(2u32) * &s % &p * &den_x % &p), &p);
    let y = &u1 * &den_y % &p;
    let t = &x * &y % &p;
    if !was_square {
        return ("not-square", false);
    }
    if is_neg(&t) {
        return ("t-negative", false);
    }
    if y.is_zero() {
        return ("y-zero", false);
    }
    ("valid", true)
}

/// Run the library decoder for `T` on `b` and compare with the classification.
fn judge_decode<T: Deserial + concordium_base::common::Serial>(j: &mut J, ty: &str, origin: &str, b: &[u8], class: (&'static str, bool)) {
    let mut cur = std::io::Cursor::new(b);
    let got = vmon_core::catch(|| from_bytes::<T, _>(&mut cur));
    let (cname, mut accept) = class;
    if broken() && cname == "not-in-subgroup" {
        accept = true;
    }
    j.sh.hit(&format!("decode.{}.class.{}", ty, cname));
    j.sh.hit(&format!("decode.{}.origin.{}", ty, origin));
    j.sh.hit(if accept { "decode.accept.expected" } else { "decode.reject.expected" });
    match got {
        Err(m) => j.panicked(&format!("decode.{}", ty), &m, json!({"type": ty, "bytes": hex(b), "classification": cname, "candidate_kind": origin})),
        Ok(res) if origin == "pinned" => {
            j.check_pinned(&format!("decode.{}", ty), res.is_ok() == accept, format!("c20:decode:{}:{}:{}", ty, cname, hex(b)), format!("decoder {} the string although the independent classification is '{}'", if res.is_ok() { "ACCEPTED" } else { "REJECTED" }, cname), json!({"type": ty, "bytes": hex(b), "classification": cname, "candidate_kind": origin, "library_accepts": res.is_ok(), "decodes_to": res.as_ref().ok().map(|v| hex(&to_bytes(v)))}));
        }
        Ok(res) => {
            let ok = res.is_ok() == accept;
            j.check(&format!("decode.{}", ty), ok, || {
                (format!("decoder {} the string although the independent classification is '{}' (candidate: {})", if res.is_ok() { "ACCEPTED" } else { "REJECTED" }, cname, origin), json!({"type": ty, "bytes": hex(b), "classification": cname, "candidate_kind": origin, "library_accepts": res.is_ok()}))
            });
            if let (Ok(v), true) = (&res, accept) {
                let back = to_bytes(v);
                j.check(&format!("roundtrip.{}", ty), back == b, || ("an accepted encoding does not re-encode to itself".into(), json!({"type": ty, "bytes": hex(b), "reencoded": hex(&back)})));
            }
        }
    }
}

/// Pinned regression witnesses of finding F6 (repaired in /repo by commit
/// c2b608181): non-canonical encodings of the point at infinity (infinity flag
/// with a non-zero body / with the sort flag) used to be accepted by the
/// BLS12-381 G1/G2 decoders. Fed on every decode case, with witness-exact
/// signatures.
fn pinned_noncanonical_infinity(j: &mut J, g2: bool) {
    let len = if g2 { 96 } else { 48 };
    let mut a = vec![0u8; len];
    a[0] = 0xc0;
    a[len - 1] = 1;
    let mut b = vec![0u8; len];
    b[0] = 0xe0;
    for w in [a, b] {
        if g2 {
            judge_decode::<BlsG2>(j, "g2", "pinned", &w, classify_g2(&w));
        } else {
            judge_decode::<ArCurve>(j, "g1", "pinned", &w, classify_g1(&w));
        }
    }
}

/// The same candidate string through the types that embed group elements
/// (they all derive their decoders from the element decoder; this checks that
/// none of them takes another path). `valid` is a canonical encoding used for
/// the other components.
fn judge_wrappers_g1(j: &mut J, r: &mut Rng, origin: &str, b: &[u8], valid: &[u8], class: (&'static str, bool)) {
    use concordium_base::{aggregate_sig as agg, elgamal, id::constants::IpPairing, pedersen_commitment::Commitment, ps_sig};
    match r.below(6) {
        0 => judge_decode::<agg::Signature<IpPairing>>(j, "wrapper.agg_signature", origin, b, class),
        1 => judge_decode::<Commitment<ArCurve>>(j, "wrapper.commitment", origin, b, class),
        2 => judge_decode::<concordium_base::base::CredentialRegistrationID>(j, "wrapper.cred_reg_id", origin, b, class),
        3 => {
            let mut v = b.to_vec();
            v.extend_from_slice(valid);
            judge_decode::<elgamal::Cipher<ArCurve>>(j, "wrapper.cipher.first", origin, &v, class);
        }
        4 => {
            let mut v = valid.to_vec();
            v.extend_from_slice(b);
            judge_decode::<elgamal::Cipher<ArCurve>>(j, "wrapper.cipher.second", origin, &v, class);
            let got = vmon_core::catch(|| elgamal::Cipher::<ArCurve>::from_bytes(&mut std::io::Cursor::new(&v)).is_ok());
            if let Ok(g) = got {
                j.check("decode.wrapper.cipher.from_bytes", g == class.1, || (format!("Cipher::from_bytes {} a string whose second component is classified '{}'", if g { "accepted" } else { "rejected" }, class.0), json!({"bytes": hex(&v), "classification": class.0})));
            }
        }
        _ => {
            let mut v = valid.to_vec();
            v.extend_from_slice(b);
            judge_decode::<ps_sig::Signature<IpPairing>>(j, "wrapper.ps_signature.second", origin, &v, class);
        }
    }
}

fn judge_wrappers_g2(j: &mut J, r: &mut Rng, origin: &str, b: &[u8], class: (&'static str, bool)) {
    use concordium_base::{aggregate_sig as agg, id::constants::IpPairing};
    if r.chance(1, 2) {
        judge_decode::<agg::PublicKey<IpPairing>>(j, "wrapper.agg_public_key", origin, b, class);
    } else {
        // ps_sig public key with zero ys: g, g_tilda, [] , [], x_tilda
        let mut v = to_bytes(&ArCurve::one_point());
        v.extend_from_slice(&to_bytes(&BlsG2::one_point()));
        v.extend_from_slice(&0u32.to_be_bytes());
        v.extend_from_slice(&0u32.to_be_bytes());
        v.extend_from_slice(b);
        judge_decode::<concordium_base::ps_sig::PublicKey<IpPairing>>(j, "wrapper.ps_public_key.x_tilda", origin, &v, class);
    }
}

fn fq_bytes(x: &BigUint) -> Vec<u8> {
    let mut v = x.to_bytes_be();
    let mut out = vec![0u8; 48 - v.len()];
    out.append(&mut v);
    out
}

fn case_decode_g1(j: &mut J, r: &mut Rng, cr: &mut CR, n: usize) -> u64 {
    let p = p_big();
    let mut h = 0u64;
    pinned_noncanonical_infinity(j, false);
    for _ in 0..n {
        let valid = to_bytes(&ArCurve::generate(cr));
        let (origin, b): (&str, Vec<u8>) = match r.below(14) {
            0 => ("valid", valid),
            1 => ("valid-small-multiple", to_bytes(&ArCurve::one_point().mul_by_scalar(&ArCurve::scalar_from_u64(r.below(5))))),
            2 => {
                // x + p where it still fits in 381 bits: look for a subgroup point with small x
                let mut out = None;
                for _ in 0..40 {
                    let mut v = to_bytes(&ArCurve::generate(cr));
                    let flags = v[0] & 0xe0;
                    v[0] &= 0x1f;
                    let x = BigUint::from_bytes_be(&v) + &p;
                    if x.bits() <= 381 {
                        let mut e = fq_bytes(&x);
                        e[0] |= flags;
                        out = Some(e);
                        break;
                    }
                }
                match out {
                    Some(e) => ("x-plus-p", e),
                    None => ("valid", valid),
                }
            }
            3 => {
                let mut v = valid;
                v[0] ^= 0x80;
                ("compression-flag-flipped", v)
            }
            4 => {
                let mut v = valid;
                v[0] ^= 0x40;
                ("infinity-flag-set-on-point", v)
            }
            5 => {
                let mut v = valid;
                v[0] ^= 0x20;
                ("sort-flag-flipped", v)
            }
            6 => {
                let mut v = vec![0u8; 48];
                v[0] = 0xc0;
                ("infinity", v)
            }
            7 => {
                let mut v = vec![0u8; 48];
                v[0] = 0xc0;
                match r.below(3) {
                    0 => v[0] |= 0x20,
                    1 => v[r.range(1, 47) as usize] = 1 << r.below(8),
                    _ => v[0] |= 1 << r.below(5),
                }
                ("infinity-nonzero-body", v)
            }
            8 | 9 => {
                // random x: on curve without cofactor clearing, or off curve
                let x = BigUint::from_bytes_be(&r.bytes(48)) % &p;
                let mut v = fq_bytes(&x);
                v[0] |= 0x80 | if r.chance(1, 2) { 0x20 } else { 0 };
                ("random-x", v)
            }
            10 => {
                let mut v = r.bytes(48);
                v[0] |= 0x80;
                ("random-bytes", v)
            }
            11 => ("random-bytes-any-flags", r.bytes(48)),
            _ => {
                let bit = r.below(384) as usize;
                ("valid-one-bit-flipped", flipped(&valid, bit))
            }
        };
        h ^= vmon_core::fnv(&b);
        let class = classify_g1(&b);
        judge_decode::<ArCurve>(j, "g1", origin, &b, class);
        if class.0 == "noncanonical-infinity" || r.chance(1, 4) {
            let other = to_bytes(&ArCurve::generate(cr));
            judge_wrappers_g1(j, r, origin, &b, &other, class);
        }
    }
    h
}

fn case_decode_g2(j: &mut J, r: &mut Rng, cr: &mut CR, n: usize) -> u64 {
    let p = p_big();
    let mut h = 0u64;
    pinned_noncanonical_infinity(j, true);
    for _ in 0..n {
        let valid = to_bytes(&BlsG2::generate(cr));
        let (origin, b): (&str, Vec<u8>) = match r.below(14) {
            0 => ("valid", valid),
            1 => ("valid-small-multiple", to_bytes(&BlsG2::one_point().mul_by_scalar(&BlsG2::scalar_from_u64(r.below(5))))),
            2 => {
                // c0 + p always fits in 48 bytes
                let mut v = valid;
                let c0 = BigUint::from_bytes_be(&v[48..]) + &p;
                v.truncate(48);
                v.extend_from_slice(&fq_bytes(&c0));
                ("c0-plus-p", v)
            }
            3 => {
                let mut v = valid;
                v[0] ^= if r.chance(1, 2) { 0x80 } else { 0x40 };
                ("flag-flipped", v)
            }
            4 => {
                let mut out = None;
                for _ in 0..40 {
                    let mut v = to_bytes(&BlsG2::generate(cr));
                    let flags = v[0] & 0xe0;
                    v[0] &= 0x1f;
                    let x = BigUint::from_bytes_be(&v[..48]) + &p;
                    if x.bits() <= 381 {
                        let mut e = fq_bytes(&x);
                        e[0] |= flags;
                        e.extend_from_slice(&v[48..]);
                        out = Some(e);
                        break;
                    }
                }
                match out {
                    Some(e) => ("c1-plus-p", e),
                    None => ("valid", valid),
                }
            }
            5 => {
                let mut v = valid;
                v[0] ^= 0x20;
                ("sort-flag-flipped", v)
            }
            6 => {
                let mut v = vec![0u8; 96];
                v[0] = 0xc0;
                ("infinity", v)
            }
            7 => {
                let mut v = vec![0u8; 96];
                v[0] = 0xc0;
                match r.below(3) {
                    0 => v[0] |= 0x20,
                    1 => v[r.range(1, 95) as usize] = 1 << r.below(8),
                    _ => v[0] |= 1 << r.below(5),
                }
                ("infinity-nonzero-body", v)
            }
            8 | 9 => {
                let c1 = BigUint::from_bytes_be(&r.bytes(48)) % &p;
                let c0 = BigUint::from_bytes_be(&r.bytes(48)) % &p;
                let mut v = fq_bytes(&c1);
                v.extend_from_slice(&fq_bytes(&c0));
                v[0] |= 0x80 | if r.chance(1, 2) { 0x20 } else { 0 };
                ("random-x", v)
            }
            10 => {
                let mut v = r.bytes(96);
                v[0] |= 0x80;
                ("random-bytes", v)
            }
            11 => ("random-bytes-any-flags", r.bytes(96)),
            _ => {
                let bit = r.below(768) as usize;
                ("valid-one-bit-flipped", flipped(&valid, bit))
            }
        };
        h ^= vmon_core::fnv(&b);
        let class = classify_g2(&b);
        judge_decode::<BlsG2>(j, "g2", origin, &b, class);
        if class.0 == "noncanonical-infinity" || r.chance(1, 4) {
            judge_wrappers_g2(j, r, origin, &b, class);
        }
    }
    h
}

fn case_decode_ristretto(j: &mut J, r: &mut Rng, cr: &mut CR, n: usize) -> u64 {
    let p = p25519();
    let mut h = 0u64;
    let le32 = |x: &BigUint| {
        let mut v = x.to_bytes_le();
        v.resize(32, 0);
        v
    };
    for _ in 0..n {
        let valid = to_bytes(&<RistrettoPoint as Curve>::generate(cr));
        let (origin, b): (&str, Vec<u8>) = match r.below(9) {
            0 => ("valid", valid),
            1 => ("valid-small-multiple", to_bytes(&<RistrettoPoint as Curve>::one_point().mul_by_scalar(&<RistrettoPoint as Curve>::scalar_from_u64(r.below(5))))),
            2 => ("s-plus-p", le32(&(BigUint::from_bytes_le(&valid) + &p))),
            3 => ("negated-s", le32(&fneg(&BigUint::from_bytes_le(&valid), &p))),
            4 => ("random-bytes", r.bytes(32)),
            5 => {
                let mut v = r.bytes(32);
                v[0] &= 0xfe;
                v[31] &= 0x7f;
                ("random-even-below-2^255", v)
            }
            6 => ("small-integer", le32(&BigUint::from(r.below(64)))),
            7 => ("p-minus-small", le32(&(&p - BigUint::from(r.below(40))))),
            _ => {
                let bit = r.below(256) as usize;
                ("valid-one-bit-flipped", flipped(&valid, bit))
            }
        };
        h ^= vmon_core::fnv(&b);
        judge_decode::<RistrettoPoint>(j, "ristretto", origin, &b, classify_ristretto(&b));
    }
    h
}

fn case_decode_scalars(j: &mut J, r: &mut Rng, n: usize) -> u64 {
    let ord_bls = order::<ArCurve>();
    let ord_ed = order::<RistrettoPoint>();
    let mut h = 0u64;
    for _ in 0..n {
        for (ty, ord, be) in [("fr", &ord_bls, true), ("ed25519-scalar", &ord_ed, false)] {
            let (origin, v): (&str, BigUint) = match r.below(8) {
                0 => ("order", ord.clone()),
                1 => ("order-1", ord - BigUint::one()),
                2 => ("order+small", ord + BigUint::from(r.below(1000))),
                3 => ("valid+order", (BigUint::from_bytes_le(&r.bytes(32)) % ord) + ord),
                4 => ("all-ones", (BigUint::one() << 256u32) - BigUint::one()),
                5 => ("small", BigUint::from(r.below(3))),
                6 => ("random-256-bit", BigUint::from_bytes_le(&r.bytes(32))),
                _ => ("valid", BigUint::from_bytes_le(&r.bytes(32)) % ord),
            };
            if v.bits() > 256 {
                continue;
            }
            let mut b = v.to_bytes_le();
            b.resize(32, 0);
            if be {
                b.reverse();
            }
            let accept = &v < ord;
            h ^= vmon_core::fnv(&b);
            let class = (if accept { "below-order" } else { "not-below-order" }, accept);
            if be {
                judge_decode::<<ArCurve as Curve>::Scalar>(j, ty, origin, &b, class);
            } else {
                judge_decode::<<RistrettoPoint as Curve>::Scalar>(j, ty, origin, &b, class);
            }
        }
    }
    h
}

/// `Curve::scalar_from_bytes` against its documentation: the first `CAPACITY` bits of the
/// input read as a little-endian integer; shorter inputs are zero-extended, bytes beyond
/// `num_limbs * 8` are ignored. Input lengths sweep 0..=40 so that every partial last chunk occurs.
fn case_scalar_from_bytes<C: Curve>(j: &mut J, r: &mut Rng, curve: &str) -> u64 {
    let cap = <C::Scalar as PrimeField>::CAPACITY as u64;
    let nl = C::Scalar::zero().into_repr().len();
    let mut h = 0u64;
    for len in 0..=40usize {
        let mut bs = match r.below(4) {
            0 => vec![0xffu8; len],
            1 => {
                let mut v = vec![0u8; len];
                if len > 0 {
                    v[len - 1] = 1 + r.below(255) as u8;
                }
                v
            }
            _ => r.bytes(len),
        };
        if len > 0 && r.chance(1, 2) {
            // the last byte is what a dropped partial chunk would lose
            bs[len - 1] |= 0x01;
        }
        let mut used = bs.clone();
        used.truncate(nl * 8);
        let expect = BigUint::from_bytes_le(&used) % (BigUint::one() << cap);
        h ^= vmon_core::fnv(&bs);
        let case = || json!({"curve": curve, "input_hex": vmon_core::hex(&bs), "input_len": len, "capacity_bits": cap});
        let Some(got) = j.lib(&format!("scalar_from_bytes.{}", curve), case, || scalar_big::<C>(&C::scalar_from_bytes(&bs))) else { continue };
        j.check(&format!("scalar_from_bytes.{}.value", curve), got == expect, || (format!("scalar_from_bytes of {} bytes gives {}, the documented value (first {} bits, little endian, zero-extended) is {}", len, got, cap, expect), case()));
    }
    h
}

// ------------------------------------------------------------ hash to group

fn case_hash<C: Curve>(j: &mut J, r: &mut Rng, curve: &str, classify: Option<fn(&[u8]) -> (&'static str, bool)>) -> u64 {
    let ord = order::<C>();
    let m = gen_msg(r);
    let (a, b) = match (vmon_core::catch(|| C::hash_to_group(&m)), vmon_core::catch(|| C::hash_to_group(&m.clone()))) {
        (Ok(Ok(a)), Ok(Ok(b))) => (a, b),
        (x, _) => {
            j.check(&format!("hash_to_group.total.{}", curve), false, || (format!("hash_to_group failed: {:?}", x.map(|r| r.is_ok())), json!({"curve": curve, "message": hex(&m)})));
            return 0;
        }
    };
    j.check(&format!("hash_to_group.deterministic.{}", curve), a == b, || ("two calls on the same message disagree".into(), json!({"curve": curve, "message": hex(&m)})));
    let rp = ref_mul(&a, &ord);
    j.check(&format!("hash_to_group.in_group.{}", curve), rp.is_zero_point(), || ("order * hash_to_group(m) is not the identity".into(), json!({"curve": curve, "message": hex(&m), "point": hex(&to_bytes(&a))})));
    let enc = to_bytes(&a);
    j.check(&format!("hash_to_group.encoding_length.{}", curve), enc.len() == C::GROUP_ELEMENT_LENGTH, || ("encoding length differs from GROUP_ELEMENT_LENGTH".into(), json!({"curve": curve, "len": enc.len()})));
    if let Some(cl) = classify {
        let c = cl(&enc);
        j.check(&format!("hash_to_group.valid_encoding.{}", curve), c.1, || (format!("encoding of the hashed point classified '{}'", c.0), json!({"curve": curve, "message": hex(&m), "point": hex(&enc)})));
    }
    vmon_core::fnv(&enc)
}

// ------------------------------------------------------------ secret sharing

fn lagrange_at_zero(points: &[(u64, BigUint)], ord: &BigUint) -> BigUint {
    let mut acc = BigUint::zero();
    for (i, (xi, yi)) in points.iter().enumerate() {
        let mut num = BigUint::one();
        let mut den = BigUint::one();
        for (k, (xk, _)) in points.iter().enumerate() {
            if k != i {
                let xk = BigUint::from(*xk) % ord;
                let xi = BigUint::from(*xi) % ord;
                num = num * &xk % ord;
                den = den * ((&xk + ord - &xi) % ord) % ord;
            }
        }
        let inv = den.modpow(&(ord - BigUint::from(2u32)), ord);
        acc = (acc + yi * num % ord * inv) % ord;
    }
    acc
}

fn subsets(n: usize, k: usize) -> Vec<Vec<usize>> {
    let mut out = vec![];
    for mask in 0u32..(1 << n) {
        if mask.count_ones() as usize == k {
            out.push((0..n).filter(|i| mask >> i & 1 == 1).collect());
        }
    }
    out
}

fn case_sharing<C: Curve>(j: &mut J, r: &mut Rng, cr: &mut CR, curve: &str) -> u64 {
    let ord = order::<C>();
    let nbits = C::Scalar::NUM_BITS as u64;
    let n = r.range(1, 8) as usize;
    let t = r.range(1, n.min(6) as u64) as usize;
    let mut xs: Vec<u64> = vec![];
    let small = r.chance(1, 2);
    while xs.len() < n {
        let x = if small {
            r.range(1, 12)
        } else {
            match r.below(5) {
                0 => u64::MAX,
                1 => u32::MAX as u64,
                2 => 1 << 32,
                _ => r.next() | 1,
            }
        };
        if x != 0 && !xs.contains(&x) {
            xs.push(x);
        }
    }
    let (skind, secret) = gen_scalar(r, &ord, nbits);
    j.sh.hit(&format!("sharing.secret.{}", skind));
    j.sh.hit(&format!("sharing.n{}.t{}", n, t));
    let secret_s = scalar_from_big::<C>(&secret, &ord);
    let sd = match vmon_core::catch(|| share::<C, u64, _, _>(&secret_s, xs.clone().into_iter(), Threshold::try_new(t as u8).unwrap(), cr)) {
        Ok(s) => s,
        Err(m) => {
            j.panicked(&format!("sharing.share.{}", curve), &m, json!({"curve": curve, "n": n, "threshold": t, "points": xs, "secret": secret.to_str_radix(16)}));
            return 0;
        }
    };
    let ys: Vec<BigUint> = sd.shares.iter().map(|s| scalar_big::<C>(s)).collect();
    let coeffs: Vec<BigUint> = sd.coefficients.iter().map(|s| scalar_big::<C>(s)).collect();
    let base = json!({"curve": curve, "n": n, "threshold": t, "points": xs, "secret": secret.to_str_radix(16), "shares": ys.iter().map(|y| y.to_str_radix(16)).collect::<Vec<_>>(), "coefficients": coeffs.iter().map(|y| y.to_str_radix(16)).collect::<Vec<_>>()});
    j.check(&format!("sharing.shape.{}", curve), ys.len() == n && coeffs.len() == t - 1, || ("wrong number of shares or coefficients".into(), base.clone()));
    if ys.len() != n || coeffs.len() != t - 1 {
        return 0;
    }
    // shares are the polynomial evaluated at the points
    for (x, y) in xs.iter().zip(ys.iter()) {
        let xb = BigUint::from(*x) % &ord;
        let mut acc = BigUint::zero();
        for c in coeffs.iter().rev() {
            acc = (acc * &xb + c) % &ord;
        }
        acc = (acc * &xb + &secret) % &ord;
        j.check(&format!("sharing.evaluation.{}", curve), &acc == y, || (format!("share at point {} is not the polynomial value", x), base.clone()));
    }
    let g = if r.chance(1, 2) { C::one_point() } else { C::generate(cr) };
    let secret_pt = ref_mul(&g, &secret);
    let check_subset = |j: &mut J, sub: &[usize], expect_secret: bool, tag: &str| {
        let pts: Vec<(u64, PValue<C>)> = sub.iter().map(|&i| (xs[i], sd.shares[i].clone())).collect();
        let got = match vmon_core::catch(|| reveal::<u64, C>(&pts)) {
            Ok(g) => g,
            Err(m) => {
                j.panicked(&format!("sharing.reveal.{}", curve), &m, json!({"base": base.clone(), "subset": sub}));
                return;
            }
        };
        let mut is_secret = got == secret_s;
        if broken() && expect_secret {
            is_secret = false;
        }
        j.check(&format!("sharing.reveal.{}.{}", tag, curve), is_secret == expect_secret, || (format!("reveal from shares {:?} {} the secret", sub, if expect_secret { "does not give" } else { "gives" }), base.clone()));
        let mine = lagrange_at_zero(&sub.iter().map(|&i| (xs[i], ys[i].clone())).collect::<Vec<_>>(), &ord);
        j.check(&format!("sharing.reveal.bigint.{}.{}", tag, curve), mine == scalar_big::<C>(&got), || (format!("reveal from shares {:?} differs from Lagrange interpolation over integers", sub), base.clone()));
        let gpts: Vec<(u64, C)> = sub.iter().map(|&i| (xs[i], ref_mul(&g, &ys[i]))).collect();
        match vmon_core::catch(|| reveal_in_group::<u64, C>(&gpts)) {
            Ok(gp) => j.check(&format!("sharing.reveal_in_group.{}.{}", tag, curve), (gp == secret_pt) == expect_secret, || (format!("reveal_in_group from shares {:?} {} secret*G", sub, if expect_secret { "does not give" } else { "gives" }), base.clone())),
            Err(m) => j.panicked(&format!("sharing.reveal_in_group.{}", curve), &m, json!({"base": base.clone(), "subset": sub})),
        }
    };
    let mut tsets = subsets(n, t);
    if n > 6 {
        r.shuffle(&mut tsets);
        tsets.truncate(20);
    }
    for sub in &tsets {
        let mut s = sub.clone();
        r.shuffle(&mut s);
        check_subset(j, &s, true, "threshold");
    }
    // more than threshold
    for k in t + 1..=n {
        let mut all: Vec<usize> = (0..n).collect();
        r.shuffle(&mut all);
        all.truncate(k);
        check_subset(j, &all, true, "above");
    }
    // one fewer
    if t >= 2 {
        let mut lows = subsets(n, t - 1);
        r.shuffle(&mut lows);
        lows.truncate(10);
        for sub in &lows {
            check_subset(j, sub, false, "below");
        }
    }
    vmon_core::fnv(base.to_string().as_bytes())
}

// ------------------------------------------------------------ key derivation

fn hmac_sha512(key: &[u8], data: &[u8]) -> [u8; 64] {
    use hmac::{Hmac, Mac};
    let mut m = Hmac::<sha2::Sha512>::new_from_slice(key).expect("any key length");
    m.update(data);
    m.finalize().into_bytes().into()
}

/// SLIP-0010, ed25519: returns (private key, chain code).
fn slip10(seed: &[u8], path: &[u32]) -> ([u8; 32], [u8; 32]) {
    let mut i = hmac_sha512(b"ed25519 seed", seed);
    for idx in path {
        let mut data = vec![0u8];
        data.extend_from_slice(&i[..32]);
        data.extend_from_slice(&idx.to_be_bytes());
        i = hmac_sha512(&i[32..], &data);
    }
    (i[..32].try_into().unwrap(), i[32..].try_into().unwrap())
}

/// IETF BLS KeyGen (draft-irtf-cfrg-bls-signature-04, section 2.3).
fn ietf_keygen(ikm: &[u8], key_info: &[u8], deprecated_le: bool) -> BigUint {
    use sha2::Digest;
    let ord = order::<ArCurve>();
    let mut salt: Vec<u8> = b"BLS-SIG-KEYGEN-SALT-".to_vec();
    let mut ikm0 = ikm.to_vec();
    ikm0.push(0);
    let mut info = key_info.to_vec();
    if deprecated_le {
        info.extend_from_slice(&48u16.to_le_bytes());
    } else {
        info.extend_from_slice(&48u16.to_be_bytes());
    }
    loop {
        salt = sha2::Sha256::digest(&salt).to_vec();
        let hk = hkdf::Hkdf::<sha2::Sha256>::new(Some(&salt), &ikm0);
        let mut okm = [0u8; 48];
        hk.expand(&info, &mut okm).expect("48 bytes is a valid length");
        let sk = if deprecated_le { BigUint::from_bytes_le(&okm) } else { BigUint::from_bytes_be(&okm) } % &ord;
        if !sk.is_zero() {
            return sk;
        }
    }
}

const SLIP10_V1_SEED: &str = "000102030405060708090a0b0c0d0e0f";
const SLIP10_V1: [(&[u32], &str, &str); 6] = [
    (&[], "2b4be7f19ee27bbf30c667b642d5f4aa69fd169872f8fc3059c08ebae2eb19e7", "a4b2856bfec510abab89753fac1ac0e1112364e7d250545963f135f2a33188ed"),
    (&[0], "68e0fe46dfb67e368c75379acec591dad19df3cde26e63b93a8e704f1dade7a3", "8c8a13df77a28f3445213a0f432fde644acaa215fc72dcdf300d5efaa85d350c"),
    (&[0, 1], "b1d0bad404bf35da785a64ca1ac54b2617211d2777696fbffaf208f746ae84f2", "1932a5270f335bed617d5b935c80aedb1a35bd9fc1e31acafd5372c30f5c1187"),
    (&[0, 1, 2], "92a5b23c0b8a99e37d07df3fb9966917f5d06e02ddbd909c7e184371463e9fc9", "ae98736566d30ed0e9d2f4486a64bc95740d89c7db33f52121f8ea8f76ff0fc1"),
    (&[0, 1, 2, 2], "30d1dc7e5fc04c31219ab25a27ae00b50f6fd66622f6e9c913253d6511d1e662", "8abae2d66361c879b900d204ad2cc4984fa2aa344dd7ddc46007329ac76c429c"),
    (&[0, 1, 2, 2, 1000000000], "8f94d394a8e8fd6b1bc2f3f49f5c47e385281d5c17e65324b0f62483e37e8793", "3c24da049451555d51a7014a37337aa4e12d41e485abccfa46b47dfb2af54b7a"),
];

fn gen_index(r: &mut Rng) -> u32 {
    match r.below(6) {
        0 => 0,
        1 => 1,
        2 => (1u32 << 31) - 1,
        3 => r.below(100) as u32,
        _ => (r.next() as u32) & 0x7fff_ffff,
    }
}

fn case_keys(j: &mut J, r: &mut Rng) -> u64 {
    use ed25519_hd_key_derivation::{derive, derive_from_parsed_path, harden, DeriveError};
    use key_derivation::{ConcordiumHdWallet, Net};
    // --- published vector
    let vseed = vmon_core::unhex(SLIP10_V1_SEED).unwrap();
    for (path, sk, pk) in SLIP10_V1.iter() {
        let hp: Vec<u32> = path.iter().map(|i| harden(*i)).collect();
        let lib = vmon_core::catch(|| derive_from_parsed_path(&hp, &vseed)).unwrap_or(Err(DeriveError::InvalidPath));
        let mine = slip10(&vseed, &hp).0;
        let ok = lib.as_ref().map(|k| hex(&k.private_key) == *sk).unwrap_or(false) && hex(&mine) == *sk;
        j.check("keys.slip10.vector1", ok, || ("SLIP-0010 test vector 1 private key mismatch".into(), json!({"path": path, "expected": sk, "library": lib.as_ref().map(|k| hex(&k.private_key)).ok(), "harness": hex(&mine)})));
        if let Ok(k) = &lib {
            let pub_ = ed25519_dalek::SigningKey::from_bytes(&k.private_key).verifying_key();
            j.check("keys.slip10.vector1.public", hex(pub_.as_bytes()) == *pk, || ("SLIP-0010 test vector 1 public key mismatch".into(), json!({"path": path, "expected": pk, "got": hex(pub_.as_bytes())})));
        }
    }
    // --- random seeds and paths
    let slen = *r.pick(&[16usize, 17, 32, 63, 64, 20, 48]);
    let seed = r.bytes(slen);
    let plen = r.below(8) as usize;
    let idxs: Vec<u32> = (0..plen).map(|_| gen_index(r)).collect();
    let hp: Vec<u32> = idxs.iter().map(|i| harden(*i)).collect();
    let mut mine = slip10(&seed, &hp).0;
    if broken() {
        mine[0] ^= 1;
    }
    let case = json!({"seed": hex(&seed), "path": idxs});
    match vmon_core::catch(|| derive_from_parsed_path(&hp, &seed)) {
        Ok(Ok(k)) => j.check("keys.slip10.random", k.private_key == mine, || ("derive_from_parsed_path differs from the independent SLIP-0010".into(), json!({"case": case.clone(), "library": hex(&k.private_key), "harness": hex(&mine)}))),
        Ok(Err(e)) => j.check("keys.slip10.random", false, || (format!("derive_from_parsed_path failed: {}", e), case.clone())),
        Err(m) => j.panicked("keys.derive_from_parsed_path", &m, case.clone()),
    }
    if plen > 0 {
        let ps = format!("m/{}", idxs.iter().map(|i| format!("{}'", i)).collect::<Vec<_>>().join("/"));
        match vmon_core::catch(|| derive(&ps, &seed)) {
            Ok(Ok(k)) => j.check("keys.slip10.string_path", k.private_key == mine, || ("derive(path string) differs from the independent SLIP-0010".into(), json!({"case": case.clone(), "path_string": ps, "library": hex(&k.private_key)}))),
            Ok(Err(e)) => j.check("keys.slip10.string_path", false, || (format!("derive failed on a valid path: {}", e), json!({"path_string": ps}))),
            Err(m) => j.panicked("keys.derive", &m, json!({"case": case.clone(), "path_string": ps})),
        }
        // documented rejections: non-hardened element, element >= 2^31
        let k = r.below(plen as u64) as usize;
        let bad1 = format!("m/{}", idxs.iter().enumerate().map(|(i, x)| if i == k { format!("{}", x) } else { format!("{}'", x) }).collect::<Vec<_>>().join("/"));
        j.check("keys.slip10.reject.unhardened", matches!(vmon_core::catch(|| derive(&bad1, &seed).map(|_| ())), Ok(Err(DeriveError::InvalidPath))), || ("a path with a non-hardened element was accepted".into(), json!({"path_string": bad1})));
        let bad2 = format!("m/{}", idxs.iter().enumerate().map(|(i, x)| if i == k { "2147483648'".to_string() } else { format!("{}'", x) }).collect::<Vec<_>>().join("/"));
        j.check("keys.slip10.reject.out_of_range", matches!(vmon_core::catch(|| derive(&bad2, &seed).map(|_| ())), Ok(Err(DeriveError::InvalidPath))), || ("a path with an element >= 2^31 was accepted".into(), json!({"path_string": bad2})));
        let mut raw = hp.clone();
        raw[k] &= 0x7fff_ffff;
        j.check("keys.slip10.reject.unhardened_index", matches!(vmon_core::catch(|| derive_from_parsed_path(&raw, &seed).map(|_| ())), Ok(Err(DeriveError::InvalidPath))), || ("derive_from_parsed_path accepted a non-hardened index".into(), json!({"path": raw})));
    }
    for bad_len in [0usize, 15, 65] {
        let s = r.bytes(bad_len);
        j.check("keys.slip10.reject.seed_length", matches!(vmon_core::catch(|| derive_from_parsed_path(&hp, &s).map(|_| ())), Ok(Err(DeriveError::InvalidSeed))), || ("a seed outside 16..=64 bytes was accepted".into(), json!({"seed_length": bad_len})));
    }
    // sensitivity: one bit of the seed, one index
    {
        let bit = r.below(8 * seed.len() as u64) as usize;
        let s2 = flipped(&seed, bit);
        if let Ok((Ok(a), Ok(b))) = vmon_core::catch(|| (derive_from_parsed_path(&hp, &seed), derive_from_parsed_path(&hp, &s2))) {
            j.check("keys.slip10.seed_sensitive", a.private_key != b.private_key, || ("flipping a seed bit does not change the key".into(), case.clone()));
        }
    }
    // --- BLS keygen
    let ikm_len = *r.pick(&[0usize, 1, 31, 32, 33, 64]);
    let ikm = r.bytes(ikm_len);
    let info_len = *r.pick(&[0usize, 0, 1, 20, 200]);
    let info = r.bytes(info_len);
    let kcase = json!({"ikm": hex(&ikm), "key_info": hex(&info)});
    for (name, dep) in [("keygen_bls", false), ("keygen_bls_deprecated", true)] {
        let lib = vmon_core::catch(|| if dep { keygen_bls::keygen_bls_deprecated(&ikm, &info) } else { keygen_bls::keygen_bls(&ikm, &info) });
        let mine = ietf_keygen(&ikm, &info, dep);
        match lib {
            Ok(Ok(sk)) => {
                let got = scalar_big::<ArCurve>(&sk);
                j.check(&format!("keys.{}", name), got == mine && !got.is_zero(), || (format!("{} differs from the IETF KeyGen transcription", name), json!({"case": kcase.clone(), "library": got.to_str_radix(16), "harness": mine.to_str_radix(16)})));
            }
            Ok(Err(_)) => j.check(&format!("keys.{}", name), false, || (format!("{} failed", name), kcase.clone())),
            Err(m) => j.panicked(&format!("keys.{}", name), &m, kcase.clone()),
        }
    }
    // --- wallet
    let mut ws = [0u8; 64];
    r.fill(&mut ws);
    let mut seen: std::collections::BTreeMap<Vec<u8>, String> = Default::default();
    let mut tuples: Vec<(Net, u32, u32, u32)> = vec![];
    let base = (gen_index(r), gen_index(r), gen_index(r));
    tuples.push((Net::Mainnet, base.0, base.1, base.2));
    tuples.push((Net::Testnet, base.0, base.1, base.2));
    tuples.push((Net::Mainnet, base.0 ^ 1, base.1, base.2));
    tuples.push((Net::Mainnet, base.0, base.1 ^ 1, base.2));
    tuples.push((Net::Mainnet, base.0, base.1, base.2 ^ 1));
    tuples.push((Net::Mainnet, base.1 ^ 2, base.0 ^ 2, base.2)); // swapped (made distinct from the others)
    let mut distinct_inputs = std::collections::BTreeSet::new();
    for (net, ip, id, cc) in tuples {
        if !distinct_inputs.insert((net.net_code(), ip, id, cc)) {
            continue;
        }
        let w = ConcordiumHdWallet { seed: ws, net };
        let w2 = ConcordiumHdWallet { seed: ws, net };
        let wcase = json!({"seed": hex(&ws), "net": net.net_code(), "identity_provider": ip, "identity": id, "credential": cc});
        let (sk, sk2, pk) = match vmon_core::catch(|| (w.get_account_signing_key(ip, id, cc), w2.get_account_signing_key(ip, id, cc), w.get_account_public_key(ip, id, cc))) {
            Ok((Ok(a), Ok(b), Ok(c))) => (a, b, c),
            Err(m) => {
                j.panicked("keys.wallet.get_account_signing_key", &m, wcase.clone());
                continue;
            }
            _ => {
                j.check("keys.wallet.total", false, || ("wallet getters failed on indices below 2^31".into(), wcase.clone()));
                continue;
            }
        };
        j.check("keys.wallet.deterministic", sk == sk2, || ("two derivations of the same account signing key differ".into(), wcase.clone()));
        j.check("keys.wallet.public_matches_secret", pk == ed25519_dalek::SigningKey::from_bytes(&sk).verifying_key(), || ("account public key is not derived from the account signing key".into(), wcase.clone()));
        let mine = slip10(&ws, &[harden(44), harden(net.net_code()), harden(ip), harden(id), harden(0), harden(cc)]).0;
        j.check("keys.wallet.signing_key_path", sk == mine, || ("account signing key differs from SLIP-0010 at m/44'/net'/ip'/id'/0'/cred'".into(), json!({"case": wcase.clone(), "library": hex(&sk), "harness": hex(&mine)})));
        let mut outs: Vec<(String, Vec<u8>)> = vec![("signing_key".into(), sk.to_vec())];
        if cc == base.2 {
            // per-identity values: only once per (net, ip, id)
            match vmon_core::catch(|| (w.get_id_cred_sec(ip, id), w2.get_id_cred_sec(ip, id), w.get_prf_key(ip, id), w2.get_prf_key(ip, id), w.get_blinding_randomness(ip, id), w2.get_blinding_randomness(ip, id))) {
                Err(m) => j.panicked("keys.wallet.identity_getters", &m, wcase.clone()),
                Ok((Ok(a), Ok(a2), Ok(b), Ok(b2), Ok(c), Ok(c2))) => {
                    j.check("keys.wallet.deterministic", to_bytes(&a) == to_bytes(&a2) && to_bytes(&b) == to_bytes(&b2) && to_bytes(&c) == to_bytes(&c2), || ("two derivations of idCredSec / prfKey / blinding randomness differ".into(), wcase.clone()));
                    outs.push(("id_cred_sec".into(), to_bytes(&a)));
                    outs.push(("prf_key".into(), to_bytes(&b)));
                    outs.push(("blinding_randomness".into(), to_bytes(&c)));
                }
                _ => j.check("keys.wallet.total", false, || ("wallet getters failed on indices below 2^31".into(), wcase.clone())),
            }
        }
        let tag = concordium_base::id::types::AttributeTag(r.below(256) as u8);
        if let Ok((Ok(a), Ok(a2))) = vmon_core::catch(|| (w.get_attribute_commitment_randomness(ip, id, cc, tag), w2.get_attribute_commitment_randomness(ip, id, cc, tag))) {
            j.check("keys.wallet.deterministic", to_bytes(&a) == to_bytes(&a2), || ("two derivations of the attribute randomness differ".into(), wcase.clone()));
            outs.push((format!("attribute_randomness.{}", tag.0), to_bytes(&a)));
        }
        for (name, o) in outs {
            let label = format!("{}@{}", name, wcase);
            let prev = seen.insert(o.clone(), label.clone());
            j.check("keys.wallet.distinct_paths", prev.is_none(), || ("two different (net, indices, purpose) give the same output".into(), json!({"first": prev, "second": label, "output": hex(&o)})));
        }
    }
    // verifiable credential keys
    {
        let w = ConcordiumHdWallet { seed: ws, net: Net::Mainnet };
        let issuer = concordium_base::contracts_common::ContractAddress::new(r.u64v(), r.u64v());
        let vi = gen_index(r);
        if let Ok((Ok(sk), Ok(sk2), Ok(pk))) = vmon_core::catch(|| (w.get_verifiable_credential_signing_key(issuer, vi), w.get_verifiable_credential_signing_key(issuer, vi), w.get_verifiable_credential_public_key(issuer, vi))) {
            j.check("keys.wallet.vc.deterministic", sk == sk2, || ("verifiable credential key not deterministic".into(), json!({"seed": hex(&ws)})));
            j.check("keys.wallet.vc.public_matches_secret", pk == ed25519_dalek::SigningKey::from_bytes(&sk).verifying_key(), || ("verifiable credential public key is not derived from its secret key".into(), json!({"seed": hex(&ws)})));
            // every bit of the issuer's index and subindex must reach the key: flip each of the 128 bits
            for b in 0..128u32 {
                let other = if b < 64 {
                    concordium_base::contracts_common::ContractAddress::new(issuer.index ^ (1u64 << b), issuer.subindex)
                } else {
                    concordium_base::contracts_common::ContractAddress::new(issuer.index, issuer.subindex ^ (1u64 << (b - 64)))
                };
                if let Ok(Ok(o)) = vmon_core::catch(|| w.get_verifiable_credential_signing_key(other, vi)) {
                    j.check("keys.wallet.vc.distinct", o != sk, || ("different issuers give the same verifiable credential key".into(), json!({"seed": hex(&ws), "issuer": issuer.index, "subindex": issuer.subindex, "other_issuer": other.index, "other_subindex": other.subindex, "index": vi})));
                }
            }
            let prev = seen.insert(sk.to_vec(), "vc".into());
            j.check("keys.wallet.distinct_paths", prev.is_none(), || ("verifiable credential key collides with an account value".into(), json!({"seed": hex(&ws)})));
        }
        // Indices >= 2^31 are invalid (`checked_harden` -> `DeriveError::InvalidPath`):
        // every getter must fail, and must in particular not alias index - 2^31.
        let big = |x: u32| x | (1u32 << 31);
        let (ip, id, cc) = base;
        let tag = concordium_base::id::types::AttributeTag(r.below(256) as u8);
        type Probe<'a> = (&'static str, Box<dyn Fn() -> Result<Vec<u8>, DeriveError> + 'a>);
        let mut probes: Vec<(String, Probe)> = vec![];
        for (pos, (a, b, c)) in [("identity_provider", (big(ip), id, cc)), ("identity", (ip, big(id), cc)), ("credential", (ip, id, big(cc)))] {
            let w = &w;
            probes.push((pos.into(), ("get_account_signing_key", Box::new(move || w.get_account_signing_key(a, b, c).map(|k| k.to_vec())))));
            probes.push((pos.into(), ("get_account_public_key", Box::new(move || w.get_account_public_key(a, b, c).map(|k| k.as_bytes().to_vec())))));
            probes.push((pos.into(), ("get_attribute_commitment_randomness", Box::new(move || w.get_attribute_commitment_randomness(a, b, c, tag).map(|k| to_bytes(&k))))));
            if pos != "credential" {
                probes.push((pos.into(), ("get_id_cred_sec", Box::new(move || w.get_id_cred_sec(a, b).map(|k| to_bytes(&k))))));
                probes.push((pos.into(), ("get_prf_key", Box::new(move || w.get_prf_key(a, b).map(|k| to_bytes(&k))))));
                probes.push((pos.into(), ("get_blinding_randomness", Box::new(move || w.get_blinding_randomness(a, b).map(|k| to_bytes(&k))))));
            }
        }
        {
            let w = &w;
            let bvi = big(vi);
            probes.push(("verifiable_credential_index".into(), ("get_verifiable_credential_signing_key", Box::new(move || w.get_verifiable_credential_signing_key(issuer, bvi).map(|k| k.to_vec())))));
            probes.push(("verifiable_credential_index".into(), ("get_verifiable_credential_public_key", Box::new(move || w.get_verifiable_credential_public_key(issuer, bvi).map(|k| k.as_bytes().to_vec())))));
        }
        for (pos, (getter, f)) in probes {
            let pcase = json!({"seed": hex(&ws), "net": 919, "getter": getter, "index_with_top_bit": pos, "identity_provider": ip, "identity": id, "credential": cc, "verifiable_credential_index": vi});
            let res = match j.lib(&format!("keys.wallet.{}", getter), || pcase.clone(), || f()) {
                Some(x) => x,
                None => continue,
            };
            let accepted = if broken() { true } else { res.is_ok() };
            j.check("keys.wallet.index_not_below_2^31.rejected", !accepted, || (format!("{} accepted an index >= 2^31 in position {} (documented: InvalidPath)", getter, pos), json!({"case": pcase.clone(), "output": res.as_ref().ok().map(|o| hex(o))})));
            if let Ok(o) = &res {
                if let Some(prev) = seen.get(o) {
                    let prev = prev.clone();
                    j.check("keys.wallet.distinct_paths", false, || ("an index >= 2^31 yields the same output as another index tuple".into(), json!({"first": prev, "second": pcase.clone(), "output": hex(o)})));
                }
            }
        }
    }
    vmon_core::fnv(&seed) ^ vmon_core::fnv(&ws)
}

pub fn run(ctx: &ChildCtx, sh: &mut Shard) {
    let thorough = ctx.tier == vmon_core::Tier::Thorough;
    let nd = if thorough { 60 } else { 40 };
    for idx in ctx.indices() {
        ctx.begin_case(idx);
        let mut r = ctx.case_rng(idx);
        let mut cr = CR(Rng::new(r.next()));
        let mut j = J { sh, idx, replaying: ctx.replaying(), sampled: false };
        let (tag, h) = match idx % 20 {
            0 | 1 | 2 => ("multiexp.g1", case_multiexp::<ArCurve>(&mut j, &mut r, &mut cr, "g1", 10)),
            3 | 4 | 5 => ("multiexp.ristretto", case_multiexp::<RistrettoPoint>(&mut j, &mut r, &mut cr, "ristretto", 10)),
            6 => ("multiexp.g2", case_multiexp::<BlsG2>(&mut j, &mut r, &mut cr, "g2", 8)),
            7 | 8 => ("decode.g1", case_decode_g1(&mut j, &mut r, &mut cr, nd)),
            9 => ("decode.g2", case_decode_g2(&mut j, &mut r, &mut cr, nd / 2)),
            10 | 11 => ("decode.ristretto", case_decode_ristretto(&mut j, &mut r, &mut cr, nd)),
            12 => {
                let a = case_decode_scalars(&mut j, &mut r, nd * 2);
                let b = case_scalar_from_bytes::<ArCurve>(&mut j, &mut r, "g1");
                let c = case_scalar_from_bytes::<BlsG2>(&mut j, &mut r, "g2");
                let d = case_scalar_from_bytes::<RistrettoPoint>(&mut j, &mut r, "ristretto");
                ("decode.scalars", a ^ b ^ c ^ d)
            }
            13 => {
                let a = case_hash::<ArCurve>(&mut j, &mut r, "g1", Some(classify_g1));
                let b = case_hash::<BlsG2>(&mut j, &mut r, "g2", Some(classify_g2));
                let c = case_hash::<RistrettoPoint>(&mut j, &mut r, "ristretto", Some(classify_ristretto));
                ("hash_to_group", a ^ b ^ c)
            }
            14 => {
                let a = case_pedersen::<ArCurve>(&mut j, &mut r, &mut cr, "g1");
                let b = case_pedersen::<RistrettoPoint>(&mut j, &mut r, &mut cr, "ristretto");
                let c = case_pedersen::<BlsG2>(&mut j, &mut r, &mut cr, "g2");
                ("pedersen", a ^ b ^ c)
            }
            15 => ("sharing.g1", case_sharing::<ArCurve>(&mut j, &mut r, &mut cr, "g1")),
            16 => ("sharing.ristretto", case_sharing::<RistrettoPoint>(&mut j, &mut r, &mut cr, "ristretto")),
            17 => {
                if idx % 40 == 17 {
                    ("sharing.g2", case_sharing::<BlsG2>(&mut j, &mut r, &mut cr, "g2"))
                } else {
                    ("sharing.g1", case_sharing::<ArCurve>(&mut j, &mut r, &mut cr, "g1"))
                }
            }
            _ => ("keys", case_keys(&mut j, &mut r)),
        };
        sh.hit(&format!("cases.{}", tag));
        sh.nontrivial(h ^ vmon_core::fnv(tag.as_bytes()));
        sh.sample(|| json!({"case_kind": tag, "case_index": idx, "case_id": format!("{:016x}", h)}));
    }
}
