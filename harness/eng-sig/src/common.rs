//! Shared helpers of the signature / arithmetic monitors.
use sha2::{Digest, Sha256};

/// `rand_core` adaptor over the harness PRNG. All randomness handed to the
/// library comes from the per-case SplitMix64 stream.
pub struct CR(pub vmon_core::Rng);

impl rand_core::RngCore for CR {
    fn next_u32(&mut self) -> u32 { self.0.next() as u32 }

    fn next_u64(&mut self) -> u64 { self.0.next() }

    fn fill_bytes(&mut self, dest: &mut [u8]) {
        for c in dest.chunks_mut(8) {
            let v = self.0.next().to_le_bytes();
            c.copy_from_slice(&v[..c.len()]);
        }
    }

    fn try_fill_bytes(&mut self, dest: &mut [u8]) -> Result<(), rand_core::Error> {
        self.fill_bytes(dest);
        Ok(())
    }
}

impl rand_core::CryptoRng for CR {}

pub fn sha256(parts: &[&[u8]]) -> [u8; 32] {
    let mut h = Sha256::new();
    for p in parts {
        h.update(p);
    }
    h.finalize().into()
}

pub fn hex(b: &[u8]) -> String { vmon_core::hex(b) }

/// Flip bit `bit` (0 = least significant bit of byte 0).
pub fn flip(b: &mut [u8], bit: usize) { b[bit / 8] ^= 1 << (bit % 8); }

pub fn flipped(b: &[u8], bit: usize) -> Vec<u8> {
    let mut v = b.to_vec();
    flip(&mut v, bit);
    v
}

/// Message shapes used by the signature workloads: empty, short, long, equal
/// prefixes.
pub fn gen_msg(r: &mut vmon_core::Rng) -> Vec<u8> {
    match r.below(8) {
        0 => vec![],
        1 => vec![0u8],
        2 => vec![0u8; r.range(1, 70) as usize],
        3 => {
            let n = r.range(1000, 5000) as usize;
            r.bytes(n)
        }
        4 => b"concordium".to_vec(),
        _ => {
            let n = r.range(1, 100) as usize;
            r.bytes(n)
        }
    }
}
