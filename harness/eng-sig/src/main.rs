//! eng-sig: runtime monitors for C06 (threshold authorisation), C19 (BLS
//! aggregation, VRF, PS signatures), C20 (group arithmetic, encodings, secret
//! sharing, key derivation) and C12 (encrypted amounts).
//! See /verif/DESIGN.md section 5 and /verif/harness/ENGINE_GUIDE.md.
mod c06;
mod c12;
mod c19;
mod c20;
mod common;

use vmon_core::{ChildCtx, Engine, Plan, Shard, Tier};

struct E;

fn s(x: &[&str]) -> Vec<String> { x.iter().map(|s| s.to_string()).collect() }

fn floors(x: &[(&str, u64)]) -> Vec<(String, u64)> { x.iter().map(|(k, n)| (k.to_string(), *n)).collect() }

const SOUNDNESS: &str = "cryptographic soundness is only probed with the cheating strategies implemented here (wrong key, wrong message, swapped/duplicated components, single-bit perturbations, cross-instance splicing); 'no forgery exists' is out of reach (DESIGN.md section 7); inputs are sampled and boundary-weighted, never exhaustive";

impl Engine for E {
    fn name(&self) -> &'static str { "eng-sig" }

    fn props(&self) -> Vec<&'static str> { vec!["C06", "C19", "C20", "C12"] }

    fn plan(&self, prop: &str, tier: Tier) -> Plan {
        let quick = tier == Tier::Quick;
        let mut p = Plan::default();
        match prop {
            "C06" => {
                p.cases = if quick { 1500 } else { 12_000 };
                p.timeout_s = if quick { 900 } else { 7200 };
                p.rule = "case = one random access structure (1-5 credentials x 1-5 keys, sparse indices, thresholds 1..n and n+1) with one transaction built by a transactions::construct builder (5/8 plain, 2/8 sponsored V1 with a second access structure) or one chain update (1/8); every signer-subset scenario (exact, all, above, none, one below per credential / per account, unknown credential, unknown key, one invalid signature at/above/below threshold, swapped, wrong digest, bad length) is verified through each library entry point; evaluations = library verdicts (or constructed values) compared with the harness predicate / recomputed value; distinct_nontrivial = cases with at least one accepting and three rejecting scenarios (updates: every case)".into();
                p.assumptions = s(&[
                    "ed25519-dalek `VerifyingKey::verify` decides validity of a single signature (the same primitive the library uses); sha2 computes SHA-256",
                    "the harness predicate `policy` (c06.rs) is the statement of the property; on signature maps where the property text and the node semantics differ (a supplied credential below its own threshold while enough others are satisfied) nothing is demanded",
                    "header / signature-map / update-instruction byte layouts are re-implemented by the harness from the field documentation; payload bytes are taken from the library's own `to_bytes(payload)` (payload encodings belong to C05)",
                    "energy = 60 + payload size + 100 * signatures + the transaction-specific constants documented in transactions::cost; V1: +2, sponsor: +32 + 100 * sponsor signatures",
                    "the Rust library has no update-instruction verifier: for chain updates only the signing side is judged",
                    SOUNDNESS,
                ]);
                let m = if quick { 1 } else { 5 };
                // floors: at most one third of the counts observed at full quick scale (seed 1); one fifth for counts below 300
                p.floors = floors(&[
                    ("accept.expected", 34_000 * m),
                    ("reject.expected", 240_000 * m),
                    ("entry.verify_data_signature", 100_000 * m),
                    ("entry.verify_signature_transaction_sign_hash", 80_000 * m),
                    ("entry.AccountTransaction::verify_transaction_signature", 85_000 * m),
                    ("entry.verify_signature_transaction_sign_hash_v1", 17_000 * m),
                    ("entry.AccountTransactionV1::verify_transaction_signature", 21_000 * m),
                    ("scenario.v0.exact", 5_000 * m),
                    ("scenario.v0.all", 4_300 * m),
                    ("scenario.v0.cred_below", 5_000 * m),
                    ("scenario.v0.account_below", 5_000 * m),
                    ("scenario.v0.unknown_credential", 5_000 * m),
                    ("scenario.v0.unknown_key", 5_000 * m),
                    ("scenario.v0.invalid_at", 5_000 * m),
                    ("scenario.v0.invalid_above", 5_000 * m),
                    ("scenario.v0.invalid_below", 2_600 * m),
                    ("scenario.v0.swapped", 4_800 * m),
                    ("scenario.v0.wrong_digest", 5_000 * m),
                    ("scenario.v0.bad_length", 5_000 * m),
                    ("scenario.v0.keyset_shrunk", 4_000 * m),
                    ("scenario.v1.accept", 4_900 * m),
                    ("scenario.v1.reject", 16_000 * m),
                    ("structure.unsatisfiable", 990 * m),
                    ("perturb.header", 19_000 * m),
                    ("perturb.payload", 20_000 * m),
                    ("perturb.signature", 60_000 * m),
                    ("perturb.key", 30_000 * m),
                    ("perturb.header_v1", 4_700 * m),
                    ("perturb.payload_v1", 4_900 * m),
                    ("v1.roles_swapped", 1_400 * m),
                    ("construct.checked", 5_000 * m),
                    ("construct.v1.checked", 1_900 * m),
                    ("construct.block_item_hash", 5_000 * m),
                    ("update.instruction.checked", 990 * m),
                    ("update.signer.some", 1_500 * m),
                    ("update.signer.none", 2_400 * m),
                    ("undemanded.partial_credential", 5_800 * m),
                ]);
            }
            "C19" => {
                p.cases = if quick { 200 } else { 1600 };
                p.timeout_s = if quick { 900 } else { 7200 };
                p.rule = "case = one construction history of one kind (idx mod 10: BLS single 3x3 matrix + bit flips; aggregate over distinct messages with mutations/duplicates/empty set; aggregate of many signers of one message, sizes 1,2,3,17,150,151; proof of possession; VRF 3 keys x 3 messages full 81-entry matrix + determinism + bit flips; PS known/blind issuance with alternative messages; ed25519 dlog proof); evaluations = verifier verdicts compared with the construction history; distinct_nontrivial = distinct cases (hash of the produced signature/proof)".into();
                p.assumptions = s(&[
                    "the construction history (which keys signed which messages) is the ground truth; mismatching queries are expected to be rejected up to coincidences of probability ~2^-250",
                    "documented behaviour is the oracle where the functions document it: verify_aggregate_sig rejects duplicate messages and the empty set, trusted_keys rejects the empty key list, hybrid is only fed inputs inside its precondition",
                    "PS commitments for blind issuance are computed by the harness as g^r * prod Y_i^m_i with the library's group operations",
                    "a perturbed byte string that no longer decodes counts as rejected",
                    SOUNDNESS,
                ]);
                let m = if quick { 1 } else { 4 };
                // floors: at most one third of the counts observed at full quick scale (seed 1); one fifth for counts below 300
                p.floors = floors(&[
                    ("agg.size.150", if quick { 0 } else { 30 }),
                    ("agg.size.151", if quick { 0 } else { 30 }),
                    ("accept.expected", 7_700 * m),
                    ("reject.expected", 30_000 * m),
                    ("bls.verify.matrix", 1_200 * m),
                    ("bls.flip.message", 320 * m),
                    ("bls.perturb.signature", 320 * m),
                    ("agg.verify_aggregate_sig.exact", 210 * m),
                    ("agg.hybrid.exact", 210 * m),
                    ("agg.trusted_keys.same_msg.exact", 100 * m),
                    ("agg.hybrid.same_msg.exact", 100 * m),
                    ("agg.verify_aggregate_sig.dup_message.dupmsg", 130 * m),
                    ("agg.hybrid.dup_message", 130 * m),
                    ("agg.trusted_keys.same_msg.dup_key", 33 * m),
                    ("agg.verify_aggregate_sig.empty", 150 * m),
                    ("agg.trusted_keys.empty", 46 * m),
                    ("agg.verify_aggregate_sig.mut.other_key", 210 * m),
                    ("agg.hybrid.mut.other_key", 210 * m),
                    ("agg.trusted_keys.same_msg.mut.other_key", 100 * m),
                    ("agg.same_msg.size.150", 9 * m),
                    ("agg.same_msg.size.151", 7 * m),
                    ("agg.same_msg.size.200", 6 * m),
                    ("agg.same_msg.size.301", 7 * m),
                    ("agg.hybrid.keys_per_message.150.accept", 9 * m),
                    ("agg.hybrid.keys_per_message.151.accept", 7 * m),
                    ("agg.hybrid.keys_per_message.200.accept", 6 * m),
                    ("agg.hybrid.keys_per_message.301.accept", 7 * m),
                    ("agg.hybrid.keys_per_message.150.reject", 16 * m),
                    ("agg.hybrid.keys_per_message.151.reject", 16 * m),
                    ("agg.hybrid.keys_per_message.200.reject", 6 * m),
                    ("agg.hybrid.keys_per_message.301.reject", 7 * m),
                    ("agg.trusted_keys.keys_per_message.150.accept", 9 * m),
                    ("agg.trusted_keys.keys_per_message.301.accept", 7 * m),
                    ("ps.known.verify.too_long", 210 * m),
                    ("ps.blind.verify.too_long", 210 * m),
                    ("vrf.key.decode", 3_100 * m),
                    ("vrf.key.decode.class.small-order", 1_500 * m),
                    ("vrf.key.decode.class.not-on-curve", 780 * m),
                    ("vrf.key.decode.class.valid", 950 * m),
                    ("vrf.key.decode.origin.small-order", 1_400 * m),
                    ("vrf.key.roundtrip", 950 * m),
                    ("agg.size.17", 19 * m),
                    ("max.hybrid_group", 151),
                    ("pop.same_key_same_context", 100 * m),
                    ("pop.other_key", 100 * m),
                    ("pop.other_context", 210 * m),
                    ("pop.flip.proof", 310 * m),
                    ("vrf.verify.matrix", 17_000 * m),
                    ("vrf.determinism", 1_900 * m),
                    ("vrf.flip.proof", 1_000 * m),
                    ("vrf.flip.key", 640 * m),
                    ("vrf.flip.message", 1_200 * m),
                    ("ps.known.verify.same", 210 * m),
                    ("ps.blind.verify.same", 210 * m),
                    ("ps.blind.verify.one_entry_changed", 150 * m),
                    ("ps.blind.verify.other_key", 210 * m),
                    ("ps.blind.wrong_randomness", 210 * m),
                    ("dlog.same", 100 * m),
                    ("dlog.other_key", 100 * m),
                    ("dlog.other_context", 100 * m),
                    ("dlog.flip.proof", 420 * m),
                ]);
            }
            "C20" => {
                p.cases = if quick { 600 } else { 6000 };
                p.timeout_s = if quick { 900 } else { 7200 };
                p.rule = "case kind = idx mod 20: multiexp (G1 x3, Ristretto x3, G2 x1; length 0..40, boundary scalars, repeated/identity/negated points; curve multiexp and GenericMultiExp at windows 4 and two random sizes), decoding of 40 candidate strings (G1 x2, G2, Ristretto x2, scalars), hash_to_group on the three curves, Pedersen commitments, secret sharing (all t-subsets for n <= 6, supersets, t-1 subsets; field, integers, exponent), key derivation (SLIP-0010 vector 1, random seeds/paths, BLS KeyGen, wallet); evaluations = individual comparisons with the reference; distinct_nontrivial = distinct cases by hash of their inputs".into();
                p.assumptions = s(&[
                    "group law primitives double_point/plus_point are trusted as the basis of the double-and-add reference (they are arkworks / curve25519-dalek additions)",
                    "arkworks Fq/Fq2 field arithmetic and sqrt, and plain double-and-add `mul_bigint`, are trusted for the independent BLS12-381 classification; the library's own deserialisation, subgroup check and hash-to-curve are not used by the oracle",
                    "the Ristretto classification is RFC 9496 section 4.3.1 transcribed over num-bigint",
                    "SLIP-0010 and draft-irtf-cfrg-bls-signature-04 KeyGen are transcribed by the harness over hmac/hkdf/sha2/num-bigint; SLIP-0010 test vector 1 is embedded",
                    "t-1 shares are expected to give a value different from the secret (false alarm probability ~2^-250)",
                    "finding F6 (infinity flag with non-zero body / sort flag was accepted by the G1/G2 decoders; repaired in /repo by c2b608181): four pinned witnesses are fed on every decode case as regression inputs and random strings of that shape are judged like every other class",
                    SOUNDNESS,
                ]);
                let m = if quick { 1 } else { 6 };
                // floors: at most one third of the counts observed at full quick scale (seed 1); one fifth for counts below 300
                p.floors = floors(&[
                    ("max.multiexp_len", 30),
                    ("multiexp.default.g1", 480 * m),
                    ("multiexp.default.ristretto", 480 * m),
                    ("multiexp.default.g2", 160 * m),
                    ("multiexp.generic.w4.g1", 560 * m),
                    ("multiexp.generic.w4.ristretto", 580 * m),
                    ("multiexp.generic.w1.g1", 100 * m),
                    ("multiexp.generic.w8.g1", 53 * m),
                    ("multiexp.len.0", 140 * m),
                    ("multiexp.len.30-40", 290 * m),
                    ("mul_by_scalar.g1", 1_000 * m),
                    ("mul_by_scalar.ristretto", 1_000 * m),
                    ("scalar.zero", 940 * m),
                    ("scalar.order-1", 960 * m),
                    ("scalar.pow2-1", 970 * m),
                    ("scalar.pow2", 940 * m),
                    ("scalar.ones-crossing-limb", 930 * m),
                    ("scalar.ones-crossing-all-limbs", 970 * m),
                    ("scalar.alternating-windows", 960 * m),
                    ("decode.g1.class.valid", 2_500 * m),
                    ("decode.g1.class.not-in-subgroup", 2_000 * m),
                    ("decode.g1.class.off-curve", 2_100 * m),
                    ("decode.g1.class.x-not-below-p", 1_000 * m),
                    ("decode.g1.class.compression-flag-unset", 1_300 * m),
                    ("decode.g1.class.infinity", 1_100 * m),
                    ("decode.g1.class.noncanonical-infinity", 3_100 * m),
                    ("decode.g2.class.noncanonical-infinity", 860 * m),
                    ("decode.wrapper.agg_signature", 880 * m),
                    ("decode.wrapper.agg_public_key", 620 * m),
                    ("decode.wrapper.cipher.second", 850 * m),
                    ("decode.g1.origin.pinned", 640 * m),
                    ("decode.g2.class.valid", 640 * m),
                    ("decode.g2.class.not-in-subgroup", 460 * m),
                    ("decode.g2.class.off-curve", 460 * m),
                    ("decode.g2.class.x-not-below-p", 590 * m),
                    ("decode.g2.class.infinity", 260 * m),
                    ("decode.g2.origin.pinned", 320 * m),
                    ("decode.ristretto.class.valid", 4_000 * m),
                    ("decode.ristretto.class.s-negative", 3_100 * m),
                    ("decode.ristretto.class.s-not-below-p", 2_100 * m),
                    ("decode.ristretto.class.not-square", 2_100 * m),
                    ("decode.ristretto.class.t-negative", 1_200 * m),
                    ("decode.fr.class.below-order", 5_400 * m),
                    ("decode.fr.class.not-below-order", 7_300 * m),
                    ("decode.ed25519-scalar.class.below-order", 4_800 * m),
                    ("decode.ed25519-scalar.class.not-below-order", 7_900 * m),
                    ("roundtrip.g1", 3_600 * m),
                    ("roundtrip.g2", 910 * m),
                    ("roundtrip.ristretto", 4_000 * m),
                    ("hash_to_group.in_group.g1", 160 * m),
                    ("hash_to_group.in_group.g2", 160 * m),
                    ("hash_to_group.in_group.ristretto", 160 * m),
                    ("hash_to_group.deterministic.g1", 160 * m),
                    ("pedersen.hide.g1", 160 * m),
                    ("pedersen.vec.g1", 560 * m),
                    ("sharing.reveal.threshold.g1", 1_700 * m),
                    ("sharing.reveal.threshold.ristretto", 1_200 * m),
                    ("sharing.reveal.threshold.g2", 560 * m),
                    ("sharing.reveal_in_group.threshold.g1", 1_700 * m),
                    ("sharing.reveal.bigint.threshold.g1", 1_700 * m),
                    ("sharing.reveal.below.g1", 1_000 * m),
                    ("sharing.reveal_in_group.below.g1", 1_000 * m),
                    ("sharing.reveal.above.g1", 460 * m),
                    ("keys.slip10.vector1", 1_900 * m),
                    ("keys.slip10.random", 320 * m),
                    ("keys.slip10.string_path", 280 * m),
                    ("keys.keygen_bls", 320 * m),
                    ("keys.keygen_bls_deprecated", 320 * m),
                    ("keys.wallet.signing_key_path", 1_900 * m),
                    ("keys.wallet.public_matches_secret", 1_900 * m),
                    ("keys.wallet.deterministic", 5_400 * m),
                    ("keys.wallet.distinct_paths", 8_900 * m),
                    ("pedersen.vec.g2", 550 * m),
                    ("pedersen.vec.ristretto", 550 * m),
                    ("pedersen.hide.g2", 160 * m),
                    ("pedersen.vec.randomness_base.g1", 400 * m),
                    ("pedersen.vec.randomness_base.g2", 390 * m),
                    ("pedersen.vec.randomness_base.ristretto", 390 * m),
                    ("pedersen.vec.values_0", 480 * m),
                    ("pedersen.vec.values_fewer", 790 * m),
                    ("pedersen.vec.values_all", 400 * m),
                    ("pedersen.vec.too_long.g1", 160 * m),
                    ("keys.wallet.index_not_below_2^31.rejected", 5_400 * m),
                ]);
            }
            "C12" => {
                p.cases = if quick { 60 } else { 900 };
                p.timeout_s = if quick { 900 } else { 7200 };
                p.rule = "case kind = idx mod 10: encrypt/decrypt of a boundary-weighted amount with ciphertext structure recomputed from the returned randomness (x3), aggregation of two encrypted amounts whose chunk sums stay below 2^32 (x2), encrypted transfer balance/amount pair with honest verification, conservation by decryption, exceeding amounts, and 7-10 perturbations (x2), the same for secret-to-public transfers (x2), chunk model and baby-step-giant-step tables of non-power-of-two size (x1); every transfer is additionally verified with each public-key component perturbed separately and with the number of responses of the accounting proof changed; evaluations = comparisons with integer arithmetic / expected verifier verdicts; distinct_nontrivial = distinct cases by hash of the produced ciphertext / transfer data".into();
                p.assumptions = s(&[
                    "integer arithmetic on u64 and the independently written 2 x 32-bit chunk model are the ground truth for amounts",
                    "group operations plus_point / mul_by_scalar (checked by C20) are used to recompute ciphertext structure",
                    "fixture: GlobalContext::generate(\"verif-c12\") and one BabyStepGiantStep table of size 2^16 per child process",
                    "decryption with the 2^16 table is only attempted when every chunk is below 2^32 (most cases below 2^23 to bound the linear search); aggregates whose low chunks carry are decrypted with a second table of size 2^17 (every sum of two 32-bit chunks is below m^2 = 2^34) and judged against sum_i chunk_sum_i * 2^(32 i) computed in u128",
                    "the `index` field is documented as not bound by the proofs; only its chain semantics (another aggregate as before_amount) is judged",
                    SOUNDNESS,
                ]);
                let m = if quick { 1 } else { 9 };
                // floors: at most one third of the counts observed at full quick scale (seed 1); one fifth for counts below 300
                p.floors = floors(&[
                    ("amount.2^32-1", 6),
                    ("amount.2^32", 11),
                    ("amount.2^32+1", 9),
                    ("amount.2^64-1", 5),
                    ("amount.zero", 12),
                    ("amount.one", 10),
                    ("accept.expected", 250 * m),
                    ("reject.expected", 930 * m),
                    ("encrypt.structure", 190 * m),
                    ("decrypt.roundtrip", 57 * m),
                    ("decrypt.fixed_randomness", 31 * m),
                    ("aggregate.decrypt", 12 * m),
                    ("aggregate.low_chunk_carry.high_odd", if quick { 21 } else { 63 }),
                    ("aggregate.low_chunk_carry.high_even", if quick { 21 } else { 63 }),
                    ("aggregate.low_chunk_carry.decrypt", if quick { 42 } else { 126 }),
                    ("aggregate.low_chunk_sum_large", 6 * m),
                    ("transfer.verify.honest", 38 * m),
                    ("transfer.conservation", 35 * m),
                    ("transfer.exceeding.none", 38 * m),
                    ("transfer.exceeding.lie.verify", 38 * m),
                    ("transfer.pair.equal", 10 * m),
                    ("transfer.pair.zero", 6 * m),
                    ("transfer.pair.off_by_one", 4 * m),
                    ("sec_to_pub.verify.honest", 38 * m),
                    ("sec_to_pub.conservation", 34 * m),
                    ("sec_to_pub.exceeding.none", 38 * m),
                    ("sec_to_pub.exceeding.lie.verify", 38 * m),
                    ("perturb.remaining.chunk0.component0", 15 * m),
                    ("perturb.remaining.chunk0.component1", 15 * m),
                    ("perturb.remaining.chunk1.component0", 18 * m),
                    ("perturb.remaining.chunk1.component1", 12 * m),
                    ("perturb.transfer.chunk0.component0", 16 * m),
                    ("perturb.transfer.chunk0.component1", 16 * m),
                    ("perturb.transfer.chunk1.component0", 16 * m),
                    ("perturb.transfer.chunk1.component1", 16 * m),
                    ("perturb.amounts_swapped", 13 * m),
                    ("perturb.sender_key", 15 * m),
                    ("perturb.receiver_key", 13 * m),
                    ("perturb.keys_swapped", 13 * m),
                    ("perturb.index.other_aggregate", 15 * m),
                    ("perturb.before.reencrypted", 15 * m),
                    ("perturb.proof.spliced", 14 * m),
                    ("perturb.bitflip.proof", 7 * m),
                    ("perturb.s2p.remaining.chunk0.component0", 20 * m),
                    ("perturb.s2p.remaining.chunk1.component1", 19 * m),
                    ("perturb.s2p.public_amount_plus_one", 22 * m),
                    ("perturb.s2p.public_amount_bit", 24 * m),
                    ("perturb.s2p.key", 24 * m),
                    ("perturb.s2p.index.other_aggregate", 23 * m),
                    ("perturb.s2p.before.reencrypted", 21 * m),
                    ("perturb.s2p.proof.spliced", 23 * m),
                    ("perturb.s2p.bitflip.proof", 11 * m),
                    ("perturb.pk.sender.generator", 38 * m),
                    ("perturb.pk.sender.key_point", 38 * m),
                    ("perturb.pk.receiver.generator", 38 * m),
                    ("perturb.pk.receiver.key_point", 38 * m),
                    ("perturb.pk.receiver.generator_random", 38 * m),
                    ("perturb.s2p.pk.generator", 38 * m),
                    ("perturb.s2p.pk.key_point", 38 * m),
                    ("perturb.shape.transfer_part.extra_response", 38 * m),
                    ("perturb.shape.remaining_part.extra_response", 38 * m),
                    ("perturb.shape.transfer_part.all_dropped", 38 * m),
                    ("perturb.shape.remaining_part.one_dropped", 38 * m),
                    ("perturb.s2p.shape.transfer_part.extra_response", 38 * m),
                    ("perturb.s2p.shape.remaining_part.extra_response", 38 * m),
                    ("bsgs.discrete_log", 590 * m),
                    ("bsgs.value.below_m", 190 * m),
                    ("bsgs.value.at_m", 40 * m),
                    ("bsgs.value.above_m", 330 * m),
                    ("bsgs.table.not_power_of_two", 29 * m),
                    ("bsgs.decrypt_amount", 35 * m),
                    ("chunks.model32", 640 * m),
                    ("chunks.u64_to_chunks", 3_800 * m),
                ]);
            }
            _ => {}
        }
        p
    }

    fn run_child(&self, ctx: &ChildCtx, out: &mut Shard) {
        match ctx.prop.as_str() {
            "C06" => c06::run(ctx, out),
            "C12" => c12::run(ctx, out),
            "C19" => c19::run(ctx, out),
            "C20" => c20::run(ctx, out),
            _ => out.inconclusive.push("unknown property".into()),
        }
    }
}

fn main() { vmon_core::main_engine(&E) }
