//! eng-sig: runtime monitors for C06 (threshold authorisation), C19 (BLS
//! aggregation, VRF, PS signatures), C20 (group arithmetic, encodings, secret
//! sharing, key derivation) and C12 (encrypted amounts).
//! See /verif/DESIGN.md section 5 and /verif/harness/ENGINE_GUIDE.md.
mod c06;
mod c19;
mod common;

use vmon_core::{ChildCtx, Engine, Plan, Shard, Tier};

struct E;

fn s(x: &[&str]) -> Vec<String> { x.iter().map(|s| s.to_string()).collect() }

fn floors(x: &[(&str, u64)]) -> Vec<(String, u64)> { x.iter().map(|(k, n)| (k.to_string(), *n)).collect() }

const SOUNDNESS: &str = "cryptographic soundness is only probed with the cheating strategies implemented here (wrong key, wrong message, swapped/duplicated components, single-bit perturbations, cross-instance splicing); 'no forgery exists' is out of reach (DESIGN.md section 7); inputs are sampled and boundary-weighted, never exhaustive";

impl Engine for E {
    fn name(&self) -> &'static str { "eng-sig" }

    fn props(&self) -> Vec<&'static str> { vec!["C06", "C19"] }

    fn plan(&self, prop: &str, tier: Tier) -> Plan {
        let quick = tier == Tier::Quick;
        let mut p = Plan::default();
        match prop {
            "C06" => {
                p.cases = if quick { 1500 } else { 30_000 };
                p.timeout_s = if quick { 600 } else { 3600 };
                p.rule = "case = one random access structure (1-5 credentials x 1-5 keys, sparse indices, thresholds 1..n and n+1) with one transaction built by a transactions::construct builder (5/8 plain, 2/8 sponsored V1 with a second access structure) or one chain update (1/8); every signer-subset scenario (exact, all, above, none, one below per credential / per account, unknown credential, unknown key, one invalid signature at/above/below threshold, swapped, wrong digest, bad length) is verified through each library entry point; evaluations = library verdicts (or constructed values) compared with the harness predicate / recomputed value; distinct_nontrivial = cases with at least one accepting and three rejecting scenarios (updates: every case)".into();
                p.assumptions = s(&[
                    "ed25519-dalek `VerifyingKey::verify` decides validity of a single signature (the same primitive the library uses); sha2 computes SHA-256",
                    "the harness predicate `policy` (c06.rs) is the statement of the property; on signature maps where the property text and the node semantics differ (a supplied credential below its own threshold while enough others are satisfied) nothing is demanded",
                    "header / signature-map / update-instruction byte layouts are re-implemented by the harness from the field documentation; payload bytes are taken from the library's own `to_bytes(payload)` (payload encodings belong to C05)",
                    "energy = 60 + payload size + 100 * signatures + the transaction-specific constants documented in transactions::cost; V1: +2, sponsor: +32 + 100 * sponsor signatures",
                    "the Rust library has no update-instruction verifier: for chain updates only the signing side is judged",
                    SOUNDNESS,
                ]);
                let m = if quick { 1 } else { 20 };
                p.floors = floors(&[
                    ("accept.expected", 30_000 * m),
                    ("reject.expected", 200_000 * m),
                    ("entry.verify_data_signature", 90_000 * m),
                    ("entry.verify_signature_transaction_sign_hash", 70_000 * m),
                    ("entry.AccountTransaction::verify_transaction_signature", 70_000 * m),
                    ("entry.verify_signature_transaction_sign_hash_v1", 14_000 * m),
                    ("entry.AccountTransactionV1::verify_transaction_signature", 17_000 * m),
                    ("scenario.v0.exact", 4_000 * m),
                    ("scenario.v0.all", 3_000 * m),
                    ("scenario.v0.cred_below", 4_000 * m),
                    ("scenario.v0.account_below", 4_000 * m),
                    ("scenario.v0.unknown_credential", 4_000 * m),
                    ("scenario.v0.unknown_key", 4_000 * m),
                    ("scenario.v0.invalid_at", 4_000 * m),
                    ("scenario.v0.invalid_above", 4_000 * m),
                    ("scenario.v0.invalid_below", 2_000 * m),
                    ("scenario.v0.swapped", 4_000 * m),
                    ("scenario.v0.wrong_digest", 4_000 * m),
                    ("scenario.v0.bad_length", 4_000 * m),
                    ("scenario.v0.keyset_shrunk", 3_000 * m),
                    ("scenario.v1.accept", 3_000 * m),
                    ("scenario.v1.reject", 10_000 * m),
                    ("structure.unsatisfiable", 700 * m),
                    ("perturb.header", 15_000 * m),
                    ("perturb.payload", 15_000 * m),
                    ("perturb.signature", 45_000 * m),
                    ("perturb.key", 20_000 * m),
                    ("perturb.header_v1", 3_500 * m),
                    ("perturb.payload_v1", 3_500 * m),
                    ("v1.roles_swapped", 1_000 * m),
                    ("construct.checked", 4_000 * m),
                    ("construct.v1.checked", 1_500 * m),
                    ("construct.block_item_hash", 4_000 * m),
                    ("update.instruction.checked", 700 * m),
                    ("update.signer.some", 1_000 * m),
                    ("update.signer.none", 1_800 * m),
                    ("undemanded.partial_credential", 4_000 * m),
                ]);
            }
            "C19" => {
                p.cases = if quick { 200 } else { 2400 };
                p.timeout_s = if quick { 900 } else { 5400 };
                p.rule = "case = one construction history of one kind (idx mod 10: BLS single 3x3 matrix + bit flips; aggregate over distinct messages with mutations/duplicates/empty set; aggregate of many signers of one message, sizes 1,2,3,17,150,151; proof of possession; VRF 3 keys x 3 messages full 81-entry matrix + determinism + bit flips; PS known/blind issuance with alternative messages; ed25519 dlog proof); evaluations = verifier verdicts compared with the construction history; distinct_nontrivial = distinct cases (hash of the produced signature/proof)".into();
                p.assumptions = s(&[
                    "the construction history (which keys signed which messages) is the ground truth; mismatching queries are expected to be rejected up to coincidences of probability ~2^-250",
                    "documented behaviour is the oracle where the functions document it: verify_aggregate_sig rejects duplicate messages and the empty set, trusted_keys rejects the empty key list, hybrid is only fed inputs inside its precondition",
                    "PS commitments for blind issuance are computed by the harness as g^r * prod Y_i^m_i with the library's group operations",
                    "a perturbed byte string that no longer decodes counts as rejected",
                    SOUNDNESS,
                ]);
                let m = if quick { 1 } else { 8 };
                p.floors = floors(&[
                    ("agg.size.150", if quick { 0 } else { 100 }),
                    ("agg.size.151", if quick { 0 } else { 100 }),
                    ("accept.expected", 8_000 * m),
                    ("reject.expected", 35_000 * m),
                    ("bls.verify.matrix", 1_500 * m),
                    ("bls.flip.message", 350 * m),
                    ("bls.perturb.signature", 350 * m),
                    ("agg.verify_aggregate_sig.exact", 250 * m),
                    ("agg.hybrid.exact", 250 * m),
                    ("agg.trusted_keys.same_msg.exact", 120 * m),
                    ("agg.hybrid.same_msg.exact", 120 * m),
                    ("agg.verify_aggregate_sig.dup_message.dupmsg", 150 * m),
                    ("agg.hybrid.dup_message", 150 * m),
                    ("agg.trusted_keys.same_msg.dup_key", 80 * m),
                    ("agg.verify_aggregate_sig.empty", 150 * m),
                    ("agg.trusted_keys.empty", 80 * m),
                    ("agg.verify_aggregate_sig.mut.other_key", 250 * m),
                    ("agg.hybrid.mut.other_key", 250 * m),
                    ("agg.trusted_keys.same_msg.mut.other_key", 120 * m),
                    ("agg.same_msg.size.150", 10 * m),
                    ("agg.same_msg.size.151", 10 * m),
                    ("agg.size.17", 25 * m),
                    ("max.hybrid_group", 151),
                    ("pop.same_key_same_context", 120 * m),
                    ("pop.other_key", 120 * m),
                    ("pop.other_context", 250 * m),
                    ("pop.flip.proof", 350 * m),
                    ("vrf.verify.matrix", 20_000 * m),
                    ("vrf.determinism", 2_000 * m),
                    ("vrf.flip.proof", 1_000 * m),
                    ("vrf.flip.key", 600 * m),
                    ("vrf.flip.message", 1_500 * m),
                    ("ps.known.verify.same", 250 * m),
                    ("ps.blind.verify.same", 250 * m),
                    ("ps.blind.verify.one_entry_changed", 180 * m),
                    ("ps.blind.verify.other_key", 250 * m),
                    ("ps.blind.wrong_randomness", 250 * m),
                    ("dlog.same", 120 * m),
                    ("dlog.other_key", 120 * m),
                    ("dlog.other_context", 120 * m),
                    ("dlog.flip.proof", 450 * m),
                ]);
            }
            _ => {}
        }
        p
    }

    fn run_child(&self, ctx: &ChildCtx, out: &mut Shard) {
        match ctx.prop.as_str() {
            "C06" => c06::run(ctx, out),
            "C19" => c19::run(ctx, out),
            _ => out.inconclusive.push("unknown property".into()),
        }
    }
}

fn main() { vmon_core::main_engine(&E) }
