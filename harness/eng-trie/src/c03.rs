//! C03: the contract state behaves as an ordered byte-string map under every
//! history. A shadow model (BTreeMap per checkpoint) is updated with every
//! real call; return values are compared at once, full contents through three
//! independent read paths at quiescent points.
//! D: energy/traversal counters; node shapes; entry handles across generation
//! changes (handles are only used within the generation that produced them).
use crate::common::*;
use concordium_smart_contract_engine::v1::trie::{EmptyCollector, Loadable, Loader, MutableState, PersistentState, SizeCollector};
use vmon_core::{json, ChildCtx, Rng, Shard};

struct Hist {
    log: Vec<String>,
}
impl Hist {
    fn push(&mut self, s: String) { self.log.push(s) }
}

struct Run {
    store: Vec<u8>,
    loader: L,
    state: MutableState,
    model: Model,
    /// (parent state, model at the checkpoint)
    stack: Vec<(MutableState, Model)>,
    /// persistent states that were thawed earlier, with the contents they must keep
    ancestors: Vec<(PersistentState, Model)>,
    keys: Vec<Vec<u8>>,
    hist: Hist,
    // what happened
    deletes_existing: u64,
    rollbacks: u64,
    commits: u64,
    freezes: u64,
    reloads: u64,
    prefix_deletes: u64,
    get_muts: u64,
    checkpoints_unmaterialised: u64,
    direct_freezes: u64,
    iter_writes: u64,
    reads: u64,
}

fn fail(r: &Run, msg: String) -> String { format!("{}\nhistory:\n  {}", msg, r.hist.log.join("\n  ")) }

fn full_check(run: &mut Run, rng: &mut Rng, what: &str) -> Result<(), String> {
    let prefixes: Vec<Vec<u8>> = (0..3).map(|_| near_key(rng, &run.keys)).collect();
    let inner = run.state.get_inner(&mut run.loader);
    let mut t = inner.lock();
    let n = check_mutable(&mut t, &mut run.loader, &run.model, &prefixes, what);
    drop(t);
    match n {
        Ok(n) => {
            run.reads += n;
            Ok(())
        }
        Err(e) => Err(fail(run, e)),
    }
}

fn check_ancestors(run: &mut Run, what: &str) -> Result<(), String> {
    for i in 0..run.ancestors.len() {
        let (p, m) = (run.ancestors[i].0.clone(), run.ancestors[i].1.clone());
        let n = check_persistent(&p, &mut run.loader, &m, &format!("{}: persistent ancestor #{}", what, i)).map_err(|e| fail(run, e))?;
        run.reads += n;
    }
    Ok(())
}

fn step(run: &mut Run, r: &mut Rng, miri: bool) -> Result<(), String> {
    let k = near_key(r, &run.keys);
    match r.below(33) {
        0..=7 => {
            let v = gen_val(r);
            run.hist.push(format!("insert {} <- {} bytes", hx(&k), v.len()));
            let inner = run.state.get_inner(&mut run.loader);
            let mut t = inner.lock();
            let res = t.insert(&mut run.loader, &k, v.clone());
            drop(t);
            let existed = match res {
                Ok((_, e)) => e,
                Err(_) => return Err(fail(run, "insert refused although no iterator is alive".into())),
            };
            let m = run.model.insert(k.clone(), v).is_some();
            if existed != m {
                return Err(fail(run, format!("insert reports existed={} but the model says {}", existed, m)));
            }
            run.keys.push(k);
        }
        8..=11 => {
            run.hist.push(format!("delete {}", hx(&k)));
            let inner = run.state.get_inner(&mut run.loader);
            let mut t = inner.lock();
            let res = t.delete(&mut run.loader, &k);
            drop(t);
            let d = match res {
                Ok(d) => d,
                Err(_) => return Err(fail(run, "delete refused although no iterator is alive".into())),
            };
            let m = run.model.remove(&k).is_some();
            if m {
                run.deletes_existing += 1;
            }
            if d != m {
                return Err(fail(run, format!("delete reports {} but the model says {}", d, m)));
            }
        }
        12..=14 => {
            let got = look(&mut run.state, &mut run.loader, &k);
            run.reads += 1;
            if got.as_ref() != run.model.get(&k) {
                return Err(fail(run, format!("lookup of {} gives {:?}, model {:?}", hx(&k), got.map(|x| x.len()), run.model.get(&k).map(|x| x.len()))));
            }
        }
        15 | 16 => {
            // overwrite through an entry handle
            let v = gen_val(r);
            let inner = run.state.get_inner(&mut run.loader);
            let mut t = inner.lock();
            if let Some(e) = t.get_entry(&mut run.loader, &k) {
                let ok = t.set(e, v.clone()).is_some();
                drop(t);
                run.hist.push(format!("set {} <- {} bytes", hx(&k), v.len()));
                if !run.model.contains_key(&k) {
                    return Err(fail(run, "get_entry found a key that the model does not have".into()));
                }
                if !ok {
                    return Err(fail(run, "set on a live entry returned None".into()));
                }
                run.model.insert(k.clone(), v);
            } else {
                drop(t);
                if run.model.contains_key(&k) {
                    return Err(fail(run, format!("get_entry does not find {} which the model has", hx(&k))));
                }
            }
        }
        #[cfg(concordium_base_verif)]
        17..=19 => {
            // write / resize in place through get_mut
            let inner = run.state.get_inner(&mut run.loader);
            let mut t = inner.lock();
            if let Some(e) = t.get_entry(&mut run.loader, &k) {
                let action = r.below(3);
                let byte = r.next() as u8;
                let newlen = *r.pick(&[0usize, 1, 63, 64, 65, 130]);
                let desc;
                match t.verif_get_mut(e, &mut run.loader) {
                    None => {
                        drop(t);
                        return Err(fail(run, "get_mut on a live entry returned None".into()));
                    }
                    Some(v) => {
                        let mv = match run.model.get_mut(&k) {
                            Some(mv) => mv,
                            None => {
                                drop(t);
                                return Err(fail(run, "get_entry found a key that the model does not have".into()));
                            }
                        };
                        if v != mv {
                            let (a, b) = (v.len(), mv.len());
                            drop(t);
                            return Err(fail(run, format!("get_mut of {} exposes {} bytes that differ from the model's {} bytes", hx(&k), a, b)));
                        }
                        match action {
                            0 => {
                                v.resize(newlen, byte);
                                mv.resize(newlen, byte);
                                desc = format!("get_mut {} resize to {}", hx(&k), newlen);
                            }
                            1 => {
                                if !v.is_empty() {
                                    let i = (byte as usize) % v.len();
                                    v[i] = byte;
                                    mv[i] = byte;
                                }
                                desc = format!("get_mut {} write one byte", hx(&k));
                            }
                            _ => {
                                v.push(byte);
                                mv.push(byte);
                                desc = format!("get_mut {} append", hx(&k));
                            }
                        }
                    }
                }
                drop(t);
                run.get_muts += 1;
                run.hist.push(desc);
            }
        }
        #[cfg(concordium_base_verif)]
        20 | 21 => {
            run.hist.push(format!("delete_prefix {}", hx(&k)));
            let inner = run.state.get_inner(&mut run.loader);
            let mut t = inner.lock();
            let res = t.verif_delete_prefix(&mut run.loader, &k);
            drop(t);
            let d = match res {
                Ok(d) => d,
                Err(_) => return Err(fail(run, "delete_prefix refused although no iterator is alive".into())),
            };
            let victims: Vec<Vec<u8>> = run.model.keys().filter(|x| x.starts_with(&k)).cloned().collect();
            for v in &victims {
                run.model.remove(v);
            }
            run.prefix_deletes += 1;
            if d != !victims.is_empty() {
                return Err(fail(run, format!("delete_prefix reports {} but the model had {} keys under the prefix", d, victims.len())));
            }
        }
        #[cfg(concordium_base_verif)]
        29 => {
            // iterate over a prefix and write through the entries the iterator hands out
            let inner = run.state.get_inner(&mut run.loader);
            let mut t = inner.lock();
            let it = t.verif_iter(&mut run.loader, &k);
            let mut it = match it {
                Ok(Some(it)) => it,
                Ok(None) => {
                    drop(t);
                    if run.model.keys().any(|x| x.starts_with(&k)) {
                        return Err(fail(run, format!("iterator over {} does not exist although the model has keys there", hx(&k))));
                    }
                    return Ok(());
                }
                Err(_) => {
                    drop(t);
                    return Err(fail(run, "too many iterators".into()));
                }
            };
            let steps = 1 + r.below(6);
            let mut writes: Vec<(Vec<u8>, Vec<u8>)> = vec![];
            let mut err = None;
            for _ in 0..steps {
                let e = match t.verif_next(&mut run.loader, &mut it) {
                    None => break,
                    Some(e) => e,
                };
                let key = it.key().to_vec();
                if r.chance(2, 3) {
                    let v = gen_val(r);
                    let ok = if r.chance(1, 2) {
                        t.set(e, v.clone()).is_some()
                    } else {
                        match t.verif_get_mut(e, &mut run.loader) {
                            Some(slot) => {
                                *slot = v.clone();
                                true
                            }
                            None => false,
                        }
                    };
                    if !ok {
                        err = Some(format!("writing through the entry the iterator yielded for {} failed", hx(&key)));
                        break;
                    }
                    writes.push((key, v));
                }
            }
            let deleted = t.verif_delete_iter(&it);
            drop(t);
            if let Some(e) = err {
                return Err(fail(run, e));
            }
            if !deleted {
                return Err(fail(run, "deleting the iterator reported that it did not exist".into()));
            }
            run.hist.push(format!("iterate {} and write through {} yielded entries", hx(&k), writes.len()));
            for (key, v) in writes {
                if !run.model.contains_key(&key) {
                    return Err(fail(run, format!("iterator yielded key {} which the model does not have", hx(&key))));
                }
                run.model.insert(key, v);
                run.iter_writes += 1;
            }
        }
        22 | 23 | 24 => {
            if run.stack.len() < 4 {
                // take a checkpoint, in both calling orders the API allows
                let materialise = r.chance(1, 2);
                run.hist.push(format!("checkpoint ({})", if materialise { "after get_inner" } else { "without touching the state first" }));
                if materialise {
                    let _ = run.state.get_inner(&mut run.loader);
                } else {
                    run.checkpoints_unmaterialised += 1;
                }
                let child = run.state.make_fresh_generation(&mut run.loader);
                let parent = std::mem::replace(&mut run.state, child);
                run.stack.push((parent, run.model.clone()));
            }
        }
        25 | 26 => {
            if let Some((p, m)) = run.stack.pop() {
                run.state = p;
                run.model = m;
                run.rollbacks += 1;
                if run.stack.is_empty() && r.chance(1, 3) {
                    // roll back and freeze the parent at once, without touching it in between
                    run.hist.push("rollback, then freeze directly".into());
                    let p = run.state.freeze(&mut run.loader, &mut EmptyCollector);
                    run.freezes += 1;
                    run.direct_freezes += 1;
                    run.reads += check_persistent(&p, &mut run.loader, &run.model, "freeze directly after rollback").map_err(|e| fail(run, e))?;
                    check_ancestors(run, "freeze directly after rollback")?;
                    run.state = p.thaw();
                } else {
                    run.hist.push("rollback".into());
                    if r.chance(2, 3) {
                        full_check(run, r, "after rollback")?;
                    }
                }
            }
        }
        27 => {
            if run.stack.pop().is_some() {
                run.hist.push("commit (parent dropped)".into());
                run.commits += 1;
            }
        }
        28 => {
            full_check(run, r, "periodic")?;
        }
        _ => {
            if run.stack.is_empty() {
                run.hist.push("freeze".into());
                if r.chance(1, 2) {
                    full_check(run, r, "before freeze")?;
                }
                let mut sc = SizeCollector::default();
                let mut p = run.state.freeze(&mut run.loader, &mut sc);
                run.freezes += 1;
                run.reads += check_persistent(&p, &mut run.loader, &run.model, "after freeze").map_err(|e| fail(run, e))?;
                check_ancestors(run, "after freeze")?;
                if !miri && r.chance(1, 2) {
                    run.hist.push("store + reload".into());
                    let reference = p.store_update(&mut run.store).map_err(|e| fail(run, format!("store_update failed: {:?}", e)))?;
                    run.loader = Loader::new(run.store.clone());
                    let q = PersistentState::load_from_location(&mut run.loader, reference).map_err(|e| fail(run, format!("load failed: {:?}", e)))?;
                    run.reads += check_persistent(&q, &mut run.loader, &run.model, "after reload").map_err(|e| fail(run, e))?;
                    run.reloads += 1;
                    if r.chance(1, 2) {
                        p = q;
                    }
                }
                if run.ancestors.len() >= 2 {
                    run.ancestors.remove(0);
                }
                run.ancestors.push((p.clone(), run.model.clone()));
                run.state = p.thaw();
            }
        }
    }
    Ok(())
}

pub fn run(ctx: &ChildCtx, sh: &mut Shard) {
    let miri = ctx.san == "miri";
    if miri {
        NEAR_LIMIT.store(3, std::sync::atomic::Ordering::Relaxed);
    }
    for idx in ctx.indices() {
        ctx.begin_case(idx);
        let mut r = ctx.case_rng(idx);
        let huge = !miri && ctx.san.is_empty() && r.chance(1, 150);
        HUGE_KEYS.store(huge, std::sync::atomic::Ordering::Relaxed);
        if huge {
            sh.hit("histories.huge_keys");
        }
        let nops = if miri { 6 + r.below(14) } else { 10 + r.below(7) * 60 + r.below(40) };
        let mut run = Run {
            store: vec![],
            loader: Loader::new(vec![]),
            state: MutableState::initial_state(),
            model: Model::new(),
            stack: vec![],
            ancestors: vec![],
            keys: vec![],
            hist: Hist { log: vec![] },
            deletes_existing: 0,
            rollbacks: 0,
            commits: 0,
            freezes: 0,
            reloads: 0,
            prefix_deletes: 0,
            get_muts: 0,
            checkpoints_unmaterialised: 0,
            direct_freezes: 0,
            iter_writes: 0,
            reads: 0,
        };
        let res = vmon_core::catch(|| {
            for _ in 0..nops {
                step(&mut run, &mut r, miri)?;
            }
            // final: unwind all checkpoints by rollback, check, freeze, check
            while let Some((p, m)) = run.stack.pop() {
                run.hist.push("final rollback".into());
                run.state = p;
                run.model = m;
                run.rollbacks += 1;
                full_check(&mut run, &mut r, "after final rollback")?;
            }
            full_check(&mut run, &mut r, "final")?;
            let p = run.state.freeze(&mut run.loader, &mut EmptyCollector);
            run.reads += check_persistent(&p, &mut run.loader, &run.model, "final freeze").map_err(|e| fail(&run, e))?;
            check_ancestors(&mut run, "final")?;
            Ok::<(), String>(())
        });
        sh.evaluations += 1;
        sh.add("reads.compared", run.reads);
        sh.add("ops", run.hist.log.len() as u64);
        sh.add("ops.delete_existing", run.deletes_existing);
        sh.add("ops.rollback", run.rollbacks);
        sh.add("ops.commit", run.commits);
        sh.add("ops.freeze", run.freezes);
        sh.add("ops.reload", run.reloads);
        sh.add("ops.delete_prefix", run.prefix_deletes);
        sh.add("ops.get_mut", run.get_muts);
        sh.add("ops.checkpoint_unmaterialised", run.checkpoints_unmaterialised);
        sh.add("ops.freeze_directly_after_rollback", run.direct_freezes);
        sh.add("ops.write_through_iterator", run.iter_writes);
        sh.max("max.model_size", run.model.len() as u64);
        let hist_text = run.hist.log.join("; ");
        let h = vmon_core::fnv(hist_text.as_bytes());
        if run.deletes_existing >= 1 && (run.rollbacks + run.freezes) >= 1 && !run.model.is_empty() {
            sh.nontrivial(h);
            sh.hit("histories.nontrivial");
        }
        match res {
            Ok(Ok(())) => {}
            Ok(Err(e)) => {
                let first = e.lines().next().unwrap_or("").to_string();
                sh.violate(idx, "model-divergence", format!("c03:{:016x}", h), e.clone(), json!({"history": run.hist.log, "first_line": first}));
            }
            Err(p) => {
                sh.violate(idx, "panic", format!("c03:panic:{:016x}", h), format!("the trie panicked: {}\nhistory:\n  {}", p, run.hist.log.join("\n  ")), json!({"history": run.hist.log}));
            }
        }
        sh.sample(|| json!({"history": run.hist.log.iter().take(60).collect::<Vec<_>>(), "final_model_keys": run.model.keys().take(20).map(|k| hx(k)).collect::<Vec<_>>()}));
    }
}
