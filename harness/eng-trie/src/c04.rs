//! C04: the state hash is canonical and persistence preserves contents and
//! hash.
//!  (1) hash == independent reference hash of the contents (refhash.rs), and
//!      pinned (contents -> hash, serialisation digest) vectors;
//!  (2) history independence: >= 5 different histories per contents set;
//!  (3) persistence chain: store/reload, cache, serialize/deserialize,
//!      migrate, thaw/refreeze in random order keep contents and hash;
//!  (4) refreezing an unmodified state collects 0 bytes; a modified one at
//!      least the size of the values written.
//! D: byte layout inside the backing store beyond the pinned vectors; which
//! nodes are cached.
use crate::{common::*, refhash::reference_hash};
use concordium_smart_contract_engine::v1::trie::{EmptyCollector, Loadable, Loader, MutableState, PersistentState, SizeCollector};
use sha2::Digest;
use vmon_core::{json, ChildCtx, Rng, Shard};

fn insert_all(st: &mut MutableState, loader: &mut L, items: &[(Vec<u8>, Vec<u8>)]) -> Result<(), String> {
    let inner = st.get_inner(loader);
    let mut t = inner.lock();
    for (k, v) in items {
        t.insert(loader, k, v.clone()).map_err(|_| "insert refused".to_string())?;
    }
    Ok(())
}

fn delete_all(st: &mut MutableState, loader: &mut L, keys: &[Vec<u8>]) -> Result<(), String> {
    let inner = st.get_inner(loader);
    let mut t = inner.lock();
    for k in keys {
        t.delete(loader, k).map_err(|_| "delete refused".to_string())?;
    }
    Ok(())
}

fn shuffled(r: &mut Rng, m: &Model) -> Vec<(Vec<u8>, Vec<u8>)> {
    let mut v: Vec<(Vec<u8>, Vec<u8>)> = m.iter().map(|(k, v)| (k.clone(), v.clone())).collect();
    r.shuffle(&mut v);
    v
}

fn extras(r: &mut Rng, m: &Model, n: usize) -> Vec<(Vec<u8>, Vec<u8>)> {
    let keys: Vec<Vec<u8>> = m.keys().cloned().collect();
    let mut out = vec![];
    for _ in 0..n * 3 {
        let k = near_key(r, &keys);
        if !m.contains_key(&k) && !out.iter().any(|(x, _): &(Vec<u8>, Vec<u8>)| x == &k) {
            out.push((k, gen_val(r)));
        }
        if out.len() >= n {
            break;
        }
    }
    out
}

struct Ctx<'a> {
    r: &'a mut Rng,
    store: Vec<u8>,
    loader: L,
    log: Vec<String>,
}

fn expect_hash(c: &mut Ctx, p: &PersistentState, want: &[u8; 32], what: &str) -> Result<(), String> {
    let h = hash_bytes(&p.hash(&mut c.loader));
    if &h != want {
        return Err(format!("{}: hash {} differs from the reference hash of the contents {}", what, hx(&h), hx(want)));
    }
    Ok(())
}

/// Histories that all end with contents `m`.
fn build(c: &mut Ctx, which: u64, m: &Model) -> Result<PersistentState, String> {
    match which {
        0 => {
            c.log.push("history A: from_iterator".into());
            Ok(PersistentState::from_iterator(m.iter().map(|(k, v)| (&k[..], v.clone()))))
        }
        1 => {
            c.log.push("history B: inserts in random order".into());
            let mut st = MutableState::initial_state();
            let items = shuffled(c.r, m);
            insert_all(&mut st, &mut c.loader, &items)?;
            Ok(st.freeze(&mut c.loader, &mut EmptyCollector))
        }
        2 => {
            c.log.push("history C: inserts of contents and extra keys, extras deleted again".into());
            let mut st = MutableState::initial_state();
            let ex = extras(c.r, m, 1 + m.len() / 2);
            let mut items = shuffled(c.r, m);
            items.extend(ex.iter().cloned());
            c.r.shuffle(&mut items);
            insert_all(&mut st, &mut c.loader, &items)?;
            let mut dk: Vec<Vec<u8>> = ex.iter().map(|(k, _)| k.clone()).collect();
            c.r.shuffle(&mut dk);
            delete_all(&mut st, &mut c.loader, &dk)?;
            Ok(st.freeze(&mut c.loader, &mut EmptyCollector))
        }
        3 => {
            c.log.push("history D: generations with rollback and commit".into());
            let mut st = MutableState::initial_state();
            let items = shuffled(c.r, m);
            let half = items.len() / 2;
            insert_all(&mut st, &mut c.loader, &items[..half])?;
            // a generation whose changes are rolled back
            {
                let mut child = st.make_fresh_generation(&mut c.loader);
                let ex = extras(c.r, m, 3);
                insert_all(&mut child, &mut c.loader, &ex)?;
                let dk: Vec<Vec<u8>> = items[..half].iter().take(2).map(|(k, _)| k.clone()).collect();
                delete_all(&mut child, &mut c.loader, &dk)?;
                drop(child);
            }
            if c.r.chance(1, 2) {
                // freezing directly after the rollback (no read in between) must give the contents of the checkpoint
                let before: Model = items[..half].iter().cloned().collect();
                let (h, _) = reference_hash(&before);
                let p = st.freeze(&mut c.loader, &mut EmptyCollector);
                expect_hash(c, &p, &h, "history D: freeze directly after a rolled-back generation")?;
                check_persistent(&p, &mut c.loader, &before, "history D: freeze directly after a rolled-back generation")?;
            }
            // a generation that is kept
            let mut child = st.make_fresh_generation(&mut c.loader);
            insert_all(&mut child, &mut c.loader, &items[half..])?;
            Ok(child.freeze(&mut c.loader, &mut EmptyCollector))
        }
        #[cfg(concordium_base_verif)]
        5 => {
            c.log.push("history F: contents plus whole subtrees, freeze, persist, thaw, delete_prefix of the subtrees, freeze".into());
            // pick prefixes under which the target contents have no key
            let keys: Vec<Vec<u8>> = m.keys().cloned().collect();
            let mut prefixes: Vec<Vec<u8>> = vec![];
            for _ in 0..12 {
                let mut p = near_key(c.r, &keys);
                p.push(*c.r.pick(&ALPHABET));
                if !m.keys().any(|k| k.starts_with(&p)) && !prefixes.iter().any(|q: &Vec<u8>| q.starts_with(&p) || p.starts_with(q)) {
                    prefixes.push(p);
                }
                if prefixes.len() >= 3 {
                    break;
                }
            }
            let mut st = MutableState::initial_state();
            let mut items = shuffled(c.r, m);
            for p in &prefixes {
                for _ in 0..1 + c.r.below(3) {
                    let mut k = p.clone();
                    for _ in 0..c.r.below(3) {
                        k.push(*c.r.pick(&ALPHABET));
                    }
                    items.push((k, gen_val(c.r)));
                }
            }
            c.r.shuffle(&mut items);
            insert_all(&mut st, &mut c.loader, &items)?;
            let mut p = st.freeze(&mut c.loader, &mut EmptyCollector);
            if c.r.chance(1, 2) {
                c.log.push("  persist: store_update + reload".into());
                let reference = p.store_update(&mut c.store).map_err(|e| format!("store_update: {:?}", e))?;
                c.loader = Loader::new(c.store.clone());
                p = PersistentState::load_from_location(&mut c.loader, reference).map_err(|e| format!("load: {:?}", e))?;
            }
            let mut st = p.thaw();
            {
                let inner = st.get_inner(&mut c.loader);
                let mut t = inner.lock();
                for p in &prefixes {
                    t.verif_delete_prefix(&mut c.loader, p).map_err(|_| "delete_prefix refused".to_string())?;
                }
            }
            Ok(st.freeze(&mut c.loader, &mut EmptyCollector))
        }
        6 => {
            c.log.push("history G: other contents, freeze, thaw, delete everything, freeze (empty), reuse the same mutable state, freeze".into());
            let other: Vec<(Vec<u8>, Vec<u8>)> = (0..1 + c.r.below(4)).map(|_| (gen_key(c.r), gen_val(c.r))).collect();
            let mut st0 = MutableState::initial_state();
            insert_all(&mut st0, &mut c.loader, &other)?;
            let p0 = st0.freeze(&mut c.loader, &mut EmptyCollector);
            let mut st = p0.thaw();
            let dk: Vec<Vec<u8>> = other.iter().map(|(k, _)| k.clone()).collect();
            delete_all(&mut st, &mut c.loader, &dk)?;
            let e = st.freeze(&mut c.loader, &mut EmptyCollector);
            let empty_hash = reference_hash(&Model::new()).0;
            expect_hash(c, &e, &empty_hash, "state with every key deleted")?;
            check_persistent(&e, &mut c.loader, &Model::new(), "state with every key deleted")?;
            if c.r.chance(1, 2) {
                // freezing the same mutable state again without touching it gives the same empty state
                let e2 = st.freeze(&mut c.loader, &mut EmptyCollector);
                expect_hash(c, &e2, &empty_hash, "second freeze of the emptied state")?;
                check_persistent(&e2, &mut c.loader, &Model::new(), "second freeze of the emptied state")?;
            }
            let items = shuffled(c.r, m);
            insert_all(&mut st, &mut c.loader, &items)?;
            Ok(st.freeze(&mut c.loader, &mut EmptyCollector))
        }
        7 => {
            c.log.push("history H: contents with some wrong values, freeze, (persist), thaw, values corrected through entry handles (get_entry + set), checkpoint, read in the new generation, freeze it".into());
            let mut st = MutableState::initial_state();
            let items = shuffled(c.r, m);
            let nwrong = (1 + c.r.below(3) as usize).min(items.len());
            let mut first = items.clone();
            for it in first.iter_mut().take(nwrong) {
                it.1 = if c.r.chance(1, 2) { vec![0xdd; 70] } else { vec![0xdd; 3] };
            }
            insert_all(&mut st, &mut c.loader, &first)?;
            let mut p = st.freeze(&mut c.loader, &mut EmptyCollector);
            if c.r.chance(1, 2) {
                c.log.push("  persist: store_update + reload".into());
                let reference = p.store_update(&mut c.store).map_err(|e| format!("store_update: {:?}", e))?;
                c.loader = Loader::new(c.store.clone());
                p = PersistentState::load_from_location(&mut c.loader, reference).map_err(|e| format!("load: {:?}", e))?;
            }
            let mut st = p.thaw();
            {
                let inner = st.get_inner(&mut c.loader);
                let mut t = inner.lock();
                for (k, v) in items.iter().take(nwrong) {
                    let e = t.get_entry(&mut c.loader, k).ok_or_else(|| "history H: key missing after thaw".to_string())?;
                    t.set(e, v.clone()).ok_or_else(|| "history H: set through a fresh entry handle refused".to_string())?;
                }
            }
            let mut child = st.make_fresh_generation(&mut c.loader);
            if c.r.chance(3, 4) {
                // visiting the keys in the new generation copies their nodes into it
                let inner = child.get_inner(&mut c.loader);
                let mut t = inner.lock();
                for (k, _) in items.iter() {
                    let _ = t.get_entry(&mut c.loader, k);
                }
            }
            Ok(child.freeze(&mut c.loader, &mut EmptyCollector))
        }
        _ => {
            c.log.push("history E: build part, freeze, persist, thaw, finish, freeze".into());
            let mut st = MutableState::initial_state();
            let items = shuffled(c.r, m);
            let cut = c.r.below(items.len() as u64 + 1) as usize;
            let ex = extras(c.r, m, 2);
            insert_all(&mut st, &mut c.loader, &items[..cut])?;
            insert_all(&mut st, &mut c.loader, &ex)?;
            // some of the first part get a wrong value first
            let wrong: Vec<(Vec<u8>, Vec<u8>)> = items[..cut].iter().take(2).map(|(k, _)| (k.clone(), vec![0xee; 70])).collect();
            insert_all(&mut st, &mut c.loader, &wrong)?;
            let mut p = st.freeze(&mut c.loader, &mut EmptyCollector);
            match c.r.below(4) {
                0 => {
                    c.log.push("  persist: store_update + reload".into());
                    let reference = p.store_update(&mut c.store).map_err(|e| format!("store_update: {:?}", e))?;
                    c.loader = Loader::new(c.store.clone());
                    p = PersistentState::load_from_location(&mut c.loader, reference).map_err(|e| format!("load: {:?}", e))?;
                }
                1 => {
                    c.log.push("  persist: serialize + deserialize".into());
                    let mut ser = vec![];
                    p.serialize(&mut c.loader, &mut ser).map_err(|e| format!("serialize: {:?}", e))?;
                    p = PersistentState::deserialize(&mut &ser[..]).map_err(|e| format!("deserialize: {:?}", e))?;
                }
                2 => {
                    c.log.push("  persist: store_update, keep in memory, cache".into());
                    let _ = p.store_update(&mut c.store).map_err(|e| format!("store_update: {:?}", e))?;
                    c.loader = Loader::new(c.store.clone());
                    p.cache(&mut c.loader);
                }
                _ => {}
            }
            let mut st = p.thaw();
            // fix the wrong values, add the rest, remove the extras
            let fix: Vec<(Vec<u8>, Vec<u8>)> = items[..cut].iter().take(2).cloned().collect();
            insert_all(&mut st, &mut c.loader, &fix)?;
            insert_all(&mut st, &mut c.loader, &items[cut..])?;
            let dk: Vec<Vec<u8>> = ex.iter().map(|(k, _)| k.clone()).collect();
            delete_all(&mut st, &mut c.loader, &dk)?;
            let mut sc = SizeCollector::default();
            let p2 = st.freeze(&mut c.loader, &mut sc);
            let written: u64 = fix.iter().chain(items[cut..].iter()).map(|(_, v)| v.len() as u64).sum();
            let got = sc.collect();
            if got < written {
                return Err(format!("refreeze after writing {} bytes of values reports only {} bytes of new data", written, got));
            }
            Ok(p2)
        }
    }
}

fn persistence_chain(c: &mut Ctx, mut p: PersistentState, m: &Model, want: &[u8; 32], sh: &mut Shard) -> Result<(), String> {
    let steps = 3 + c.r.below(4);
    for _ in 0..steps {
        match c.r.below(6) {
            0 => {
                c.log.push("chain: store_update + reload from the reference".into());
                let reference = p.store_update(&mut c.store).map_err(|e| format!("store_update: {:?}", e))?;
                c.loader = Loader::new(c.store.clone());
                // the in-memory value must still be usable after storing
                expect_hash(c, &p, want, "stored original")?;
                check_persistent(&p, &mut c.loader, m, "stored original")?;
                p = PersistentState::load_from_location(&mut c.loader, reference).map_err(|e| format!("load: {:?}", e))?;
                sh.hit("chain.store_reload");
            }
            1 => {
                c.log.push("chain: cache".into());
                p.cache(&mut c.loader);
                sh.hit("chain.cache");
            }
            2 => {
                c.log.push("chain: serialize + deserialize".into());
                let mut ser = vec![];
                p.serialize(&mut c.loader, &mut ser).map_err(|e| format!("serialize: {:?}", e))?;
                p = PersistentState::deserialize(&mut &ser[..]).map_err(|e| format!("deserialize: {:?}", e))?;
                sh.hit("chain.serialize");
            }
            3 => {
                c.log.push("chain: migrate to a fresh backing store".into());
                let mut store2: Vec<u8> = vec![];
                let q = p.migrate(&mut store2, &mut c.loader).map_err(|e| format!("migrate: {:?}", e))?;
                // the source must be unaffected
                expect_hash(c, &p, want, "migration source")?;
                c.store = store2;
                c.loader = Loader::new(c.store.clone());
                p = q;
                sh.hit("chain.migrate");
            }
            4 => {
                c.log.push("chain: thaw + refreeze without modification".into());
                let mut st = p.thaw();
                if c.r.chance(1, 2) {
                    // materialise and read something
                    let keys: Vec<Vec<u8>> = m.keys().cloned().collect();
                    let k = near_key(c.r, &keys);
                    let got = look(&mut st, &mut c.loader, &k);
                    if got.as_ref() != m.get(&k) {
                        return Err(format!("lookup in thawed state of {} gives {:?}", hx(&k), got.map(|g| g.len())));
                    }
                }
                // operations that leave the contents alone: deleting keys that are not there
                // (in particular ones that end at a branching point between two keys) ...
                if c.r.chance(1, 2) {
                    let keys: Vec<Vec<u8>> = m.keys().cloned().collect();
                    let mut absent: Vec<Vec<u8>> = near_misses(m);
                    for w in keys.windows(2) {
                        let l = w[0].iter().zip(w[1].iter()).take_while(|(a, b)| a == b).count();
                        absent.push(w[0][..l].to_vec());
                    }
                    absent.retain(|k| !m.contains_key(k));
                    c.r.shuffle(&mut absent);
                    absent.truncate(1 + c.r.below(6) as usize);
                    c.log.push(format!("  delete of {} absent keys: {:?}", absent.len(), absent.iter().map(|k| hx(k)).collect::<Vec<_>>()));
                    delete_all(&mut st, &mut c.loader, &absent)?;
                    sh.hit("chain.refreeze_unmodified.absent_deletes");
                }
                // ... and a checkpoint (a fresh generation that is kept)
                let mut st = if c.r.chance(1, 2) {
                    c.log.push("  checkpoint: make_fresh_generation, continue in the new generation".into());
                    sh.hit("chain.refreeze_unmodified.checkpoint");
                    let mut g = st.make_fresh_generation(&mut c.loader);
                    if c.r.chance(1, 2) {
                        let keys: Vec<Vec<u8>> = m.keys().cloned().collect();
                        let k = near_key(c.r, &keys);
                        let got = look(&mut g, &mut c.loader, &k);
                        if got.as_ref() != m.get(&k) {
                            return Err(format!("lookup in the new generation of {} gives {:?}", hx(&k), got.map(|g| g.len())));
                        }
                    }
                    g
                } else {
                    st
                };
                let mut sc = SizeCollector::default();
                p = st.freeze(&mut c.loader, &mut sc);
                let n = sc.collect();
                if n != 0 {
                    return Err(format!("refreezing an unmodified state reports {} bytes of new data", n));
                }
                sh.hit("chain.refreeze_unmodified");
            }
            _ => {
                c.log.push("chain: thaw, overwrite a key with its own value, refreeze".into());
                // contents unchanged, so the hash must be unchanged (the collector may charge)
                let mut st = p.thaw();
                if let Some((k, v)) = m.iter().next() {
                    insert_all(&mut st, &mut c.loader, &[(k.clone(), v.clone())])?;
                }
                p = st.freeze(&mut c.loader, &mut EmptyCollector);
                sh.hit("chain.rewrite_same");
            }
        }
        expect_hash(c, &p, want, "after chain step")?;
        check_persistent(&p, &mut c.loader, m, "after chain step")?;
    }
    Ok(())
}

// ---------------------------------------------------------------- pinned vectors
fn pinned_contents() -> Vec<(&'static str, Model)> {
    let mut out: Vec<(&'static str, Model)> = vec![];
    out.push(("empty", Model::new()));
    let mut m = Model::new();
    m.insert(vec![], vec![]);
    out.push(("empty key, empty value", m));
    let mut m = Model::new();
    m.insert(b"a".to_vec(), b"1".to_vec());
    out.push(("single short key", m));
    let mut m = Model::new();
    m.insert(vec![0x00], vec![]);
    m.insert(vec![0x01], vec![1]);
    m.insert(vec![0x10], vec![2; 64]);
    m.insert(vec![0x11], vec![3; 65]);
    m.insert(vec![0x11, 0xff], vec![4; 200]);
    out.push(("nibble collisions, inline/indirect boundary", m));
    let mut m = Model::new();
    let mut r = Rng::new(42);
    for _ in 0..24 {
        m.insert(gen_key(&mut r), gen_val(&mut r));
    }
    out.push(("24 generated keys (seed 42)", m));
    let mut m = Model::new();
    let mut k = vec![0xab; 300];
    m.insert(k.clone(), vec![9; 10]);
    k[299] = 0xac;
    m.insert(k.clone(), vec![8; 100]);
    k.truncate(150);
    m.insert(k, vec![]);
    out.push(("long keys sharing long stems", m));
    out
}

/// (state hash, SHA-256 of PersistentState::serialize output), generated once
/// from the tree at the time the check was written; a change that stays
/// self-consistent inside one build still trips over these.
const PINNED: [(&str, &str); 6] = [
    ("613a576fda6f2ed4423c2eacece05961487324c97a4cc27ca73b94c9359a9f93", "6e340b9cffb37a989ca544e6bb780a2c78901d3fb33738768511a30617afa01d"), // empty
    ("e86880b878d8b209eb5170a5c6f923f4e883d94cf13b7e840d02e9c2240138fa", "e7e1945ea126e495bf0b379c9a70316c8f2e1bcd0be533a9292a3f3c727cc113"), // empty key, empty value
    ("834c71db52c732bbe534723f40521ff9bb3c1b2d44fcaf2fc8cc8ddb8adf5ec6", "9e4978c29668d1befff3d061598002703200dbbe6444916b0eba3f7b0a0d8dae"), // single short key
    ("e71554a24a30e22b6a11cd24c9c6a198162406a3142bf2f80ea32876c5fa4487", "015e55a5f8f09bcfcc0329a09fca6296da6ce59abea80a1f3efa63c9adf3ce31"), // nibble collisions, inline/indirect boundary
    ("c40348f1c0f8d79c5e0d42d140d65fe418cfb8f00a272884b3c5c376f11e0faa", "1181942e92d0e8380e957210c814041cad9889d0d74be06ed08613deee2ca621"), // 24 generated keys (seed 42)
    ("5db04e871c2e15fcfe02e07892320ef75c5b6759acc13561a0f5dc0a00c09d9b", "29b34785d2c6c2f98b7e615ba92c57ae9fc9512637d4325b0285322c408d0290"), // long keys sharing long stems
];

fn check_pinned(sh: &mut Shard, idx: u64) {
    let mut loader: L = Loader::new(vec![]);
    let print = std::env::var("VMON_PRINT_VECTORS").is_ok();
    for (i, (name, m)) in pinned_contents().into_iter().enumerate() {
        let p = PersistentState::from_iterator(m.iter().map(|(k, v)| (&k[..], v.clone())));
        let h = hx(&hash_bytes(&p.hash(&mut loader)));
        let mut ser = vec![];
        let _ = p.serialize(&mut loader, &mut ser);
        let sd = hx(&sha2::Sha256::digest(&ser));
        if print {
            println!("    (\"{}\", \"{}\"), // {}", h, sd, name);
            continue;
        }
        sh.evaluations += 1;
        sh.hit("pinned.checked");
        let (rh, _) = reference_hash(&m);
        if hx(&rh) != PINNED[i].0 {
            sh.inconclusive.push(format!("pinned vector '{}': the reference hash does not reproduce the pinned hash (harness inconsistency)", name));
        }
        if h != PINNED[i].0 {
            sh.violate(idx, "pinned-hash", format!("c04:pinned-hash:{}", i), format!("contents '{}': state hash {} differs from the pinned {}", name, h, PINNED[i].0), json!({"vector": name}));
        }
        if sd != PINNED[i].1 {
            sh.violate(idx, "pinned-serialization", format!("c04:pinned-ser:{}", i), format!("contents '{}': digest of the serialised state {} differs from the pinned {}", name, sd, PINNED[i].1), json!({"vector": name}));
        }
    }
}

pub fn run(ctx: &ChildCtx, sh: &mut Shard) {
    let miri = ctx.san == "miri";
    if miri {
        NEAR_LIMIT.store(3, std::sync::atomic::Ordering::Relaxed);
    }
    if !ctx.replaying() && !miri {
        check_pinned(sh, 0);
    }
    for idx in ctx.indices() {
        ctx.begin_case(idx);
        let mut r = ctx.case_rng(idx);
        // target contents
        let n = match r.below(10) {
            0 => 0,
            1 => 1,
            2 => 2,
            _ => 3 + r.below(if miri { 6 } else { 40 }),
        };
        let mut m = Model::new();
        let mut ks: Vec<Vec<u8>> = vec![];
        for _ in 0..n {
            let k = near_key(&mut r, &ks);
            ks.push(k.clone());
            m.insert(k, gen_val(&mut r));
        }
        let (want, stats) = reference_hash(&m);
        sh.add("ref.nodes", stats.nodes as u64);
        sh.add("ref.odd_stems", stats.odd_stems as u64);
        sh.add("ref.long_stems", stats.long_stems as u64);
        sh.max("max.ref.children", stats.max_children as u64);
        let mut c = Ctx { r: &mut r, store: vec![], loader: Loader::new(vec![]), log: vec![] };
        let res = vmon_core::catch(|| -> Result<(), String> {
            let mut last = None;
            let hists: Vec<u64> = if miri { vec![1, 4, 6, 7] } else { vec![0, 1, 2, 3, 4, 5, 6, 7] };
            for which in hists {
                let p = build(&mut c, which, &m)?;
                sh.evaluations += 1;
                sh.hit(&format!("history.{}", which));
                expect_hash(&mut c, &p, &want, "after build")?;
                check_persistent(&p, &mut c.loader, &m, "after build")?;
                // cached and uncached: hash again after caching
                let mut q = p.clone();
                q.cache(&mut c.loader);
                expect_hash(&mut c, &q, &want, "after cache")?;
                last = Some(p);
            }
            if let Some(p) = last {
                if !miri {
                    persistence_chain(&mut c, p, &m, &want, sh)?;
                    sh.evaluations += 1;
                }
            }
            Ok(())
        });
        let log = c.log.clone();
        let contents: Vec<String> = m.iter().map(|(k, v)| format!("{} -> {} bytes", hx(k), v.len())).collect();
        let hm = vmon_core::fnv(format!("{:?}", m).as_bytes());
        if m.len() >= 3 && stats.odd_stems >= 1 {
            sh.nontrivial(hm);
            sh.hit("contents.nontrivial");
        }
        match res {
            Ok(Ok(())) => {}
            Ok(Err(e)) => sh.violate(idx, "hash-or-persistence", format!("c04:{:016x}:{:016x}", hm, vmon_core::fnv(log.join(";").as_bytes())), format!("{}\nsteps:\n  {}", e, log.join("\n  ")), json!({"contents": contents, "steps": log})),
            Err(p) => sh.violate(idx, "panic", format!("c04:panic:{:016x}", hm), format!("panic: {}\nsteps:\n  {}", p, log.join("\n  ")), json!({"contents": contents, "steps": log})),
        }
        sh.sample(|| json!({"contents": contents.iter().take(12).collect::<Vec<_>>(), "reference_hash": hx(&want), "steps": log.iter().take(20).collect::<Vec<_>>()}));
    }
}
