//! C15: iterator locks and entry handles. The contract-visible state interface
//! (`InstanceState`, through the H2 wrappers) is driven with interleavings of
//! iterator creation/advance/deletion, modifications at/above/below/beside the
//! locked prefixes, entry-handle use and interrupts, and every return code is
//! predicted by a shadow model (contents + multiset of locked prefixes +
//! handle table with generation counter) written from the doc comments of
//! `InstanceState::*`.
//! D: handles to entries that were *overwritten* by create_entry (not deleted)
//! are not judged; values seen through an iterator are read at the time of the
//! read (only the key set is a snapshot); energy amounts.
#![cfg(concordium_base_verif)]
use crate::common::*;
use concordium_smart_contract_engine::{
    constants::MAX_ENTRY_SIZE,
    v1::{
        trie::{Loader, MutableState, PersistentState},
        verif_hooks::VerifSuspended,
        InstanceState,
    },
    InterpreterEnergy,
};
use std::collections::BTreeMap;
use vmon_core::{json, ChildCtx, Rng, Shard};

const NONE: u64 = u64::MAX;
const ERR: u64 = u64::MAX & !(1u64 << 62);

#[derive(Clone)]
struct IterM {
    prefix: Vec<u8>,
    snapshot: Vec<Vec<u8>>,
    pos: usize,
    started: bool,
}

#[derive(Clone)]
struct HandleM {
    key: Vec<u8>,
    epoch: u64,
    /// the key was overwritten by create_entry after this handle was given out
    unspecified: bool,
}

struct M {
    contents: Model,
    /// creation epoch of each live key
    epoch: BTreeMap<Vec<u8>, u64>,
    next_epoch: u64,
    gen: u32,
    iters: Vec<Option<IterM>>,
    handles: Vec<HandleM>,
    log: Vec<String>,
}

impl M {
    fn locked_at_or_under(&self, k: &[u8]) -> bool { self.iters.iter().flatten().any(|i| k.starts_with(&i.prefix)) }

    fn locked_related(&self, k: &[u8]) -> bool { self.iters.iter().flatten().any(|i| k.starts_with(&i.prefix) || i.prefix.starts_with(k)) }

    fn live_iters(&self) -> usize { self.iters.iter().flatten().count() }

    fn handle_valid(&self, h: u64) -> Option<&HandleM> {
        let (g, idx) = ((h >> 32) as u32, (h & 0xffff_ffff) as usize);
        if g != self.gen {
            return None;
        }
        let hm = self.handles.get(idx)?;
        match self.epoch.get(&hm.key) {
            Some(e) if *e == hm.epoch => Some(hm),
            _ => None,
        }
    }

    fn new_handle(&mut self, key: &[u8]) -> u64 {
        let idx = self.handles.len();
        self.handles.push(HandleM { key: key.to_vec(), epoch: self.epoch[key], unspecified: false });
        ((self.gen as u64) << 32) | idx as u64
    }
}

fn pick_handle(r: &mut Rng, m: &M, issued: &[u64]) -> u64 {
    match r.below(12) {
        0 => r.next(),                                                                  // forged
        1 => ((m.gen as u64) << 32) | (m.handles.len() as u64 + r.below(3)),            // index past the table
        2 => (((m.gen as u64) + 1) << 32) | r.below(m.handles.len() as u64 + 1),        // wrong generation
        _ if !issued.is_empty() => *r.pick(issued),
        _ => ((m.gen as u64) << 32) | r.below(4),
    }
}

fn pick_iter(r: &mut Rng, m: &M, issued: &[u64]) -> u64 {
    match r.below(12) {
        0 => r.next(),
        1 => ((m.gen as u64) << 32) | (m.iters.len() as u64 + r.below(3)),
        2 => (((m.gen as u64) + 1) << 32) | r.below(m.iters.len() as u64 + 1),
        _ if !issued.is_empty() => *r.pick(issued),
        _ => ((m.gen as u64) << 32) | r.below(4),
    }
}

fn key_for(r: &mut Rng, m: &M, keys: &[Vec<u8>]) -> Vec<u8> {
    // bias towards keys related to locked prefixes
    let locked: Vec<&Vec<u8>> = m.iters.iter().flatten().map(|i| &i.prefix).collect();
    if !locked.is_empty() && r.chance(1, 2) {
        let mut k = (*r.pick(&locked)).clone();
        match r.below(5) {
            0 => {}
            1 => k.push(*r.pick(&ALPHABET)),
            2 => {
                k.pop();
            }
            3 => {
                if let Some(l) = k.last_mut() {
                    *l ^= 0x01
                }
            }
            _ => {
                k.push(*r.pick(&ALPHABET));
                k.push(*r.pick(&ALPHABET));
            }
        }
        return k;
    }
    near_key(r, keys)
}

macro_rules! expect {
    ($m:expr, $got:expr, $want:expr, $($what:tt)*) => {
        if $got != $want {
            return Err(format!("{}: returned {:#x?}, the documented interface gives {:#x?}", format!($($what)*), $got, $want));
        }
    };
}

#[allow(clippy::too_many_arguments)]
fn segment(is: &mut InstanceState<'_, L>, m: &mut M, r: &mut Rng, keys: &mut Vec<Vec<u8>>, issued_h: &mut Vec<u64>, issued_i: &mut Vec<u64>, nops: u64, sh: &mut Shard, drain: bool) -> Result<(), String> {
    let mut energy = InterpreterEnergy::new(1 << 50);
    for _ in 0..nops {
        let k = key_for(r, m, keys);
        let choice = if drain { 100 } else { r.below(100) };
        match choice {
            0..=13 => {
                let got = is.verif_create_entry(&k).map_err(|e| format!("create_entry trapped: {}", e))?;
                m.log.push(format!("create_entry {} -> {:#x}", hx(&k), got));
                if m.locked_at_or_under(&k) {
                    sh.hit("refused.create_under_lock");
                    expect!(m, got, NONE, "create_entry of {} under a live iterator", hx(&k));
                } else {
                    if m.contents.contains_key(&k) {
                        for h in m.handles.iter_mut() {
                            if h.key == k {
                                h.unspecified = true;
                            }
                        }
                        sh.hit("create.overwrite");
                    }
                    if !m.contents.contains_key(&k) {
                        // a new entry; an overwritten one keeps its identity
                        m.epoch.insert(k.clone(), m.next_epoch);
                        m.next_epoch += 1;
                    }
                    m.contents.insert(k.clone(), vec![]);
                    let want = m.new_handle(&k);
                    expect!(m, got, want, "create_entry of {}", hx(&k));
                    issued_h.push(got);
                    keys.push(k);
                    sh.hit("create.ok");
                }
            }
            14..=21 => {
                let got = is.verif_delete_entry(&k).map_err(|e| format!("delete_entry trapped: {}", e))?;
                m.log.push(format!("delete_entry {} -> {}", hx(&k), got));
                let want = if m.contents.is_empty() {
                    1 // the lock map is not consulted on an empty tree; nothing can be locked there anyway
                } else if m.locked_at_or_under(&k) {
                    sh.hit("refused.delete_under_lock");
                    0
                } else if m.contents.remove(&k).is_some() {
                    m.epoch.remove(&k);
                    sh.hit("delete.ok");
                    2
                } else {
                    1
                };
                expect!(m, got, want, "delete_entry of {}", hx(&k));
            }
            22..=26 => {
                let got = is.verif_delete_prefix(&mut energy, &k).map_err(|e| format!("delete_prefix trapped: {}", e))?;
                m.log.push(format!("delete_prefix {} -> {}", hx(&k), got));
                let want = if m.contents.is_empty() {
                    1
                } else if m.locked_related(&k) {
                    sh.hit("refused.delete_prefix_related_to_lock");
                    0
                } else {
                    let victims: Vec<Vec<u8>> = m.contents.keys().filter(|x| x.starts_with(&k)).cloned().collect();
                    for v in &victims {
                        m.contents.remove(v);
                        m.epoch.remove(v);
                    }
                    if victims.is_empty() {
                        1
                    } else {
                        sh.hit("delete_prefix.ok");
                        2
                    }
                };
                expect!(m, got, want, "delete_prefix of {}", hx(&k));
            }
            27..=34 => {
                let got = is.verif_lookup_entry(&k);
                m.log.push(format!("lookup_entry {} -> {:#x}", hx(&k), got));
                if m.contents.contains_key(&k) {
                    let want = m.new_handle(&k);
                    expect!(m, got, want, "lookup_entry of {}", hx(&k));
                    issued_h.push(got);
                } else {
                    expect!(m, got, NONE, "lookup_entry of absent key {}", hx(&k));
                }
            }
            35..=44 => {
                if m.live_iters() >= 6 {
                    continue;
                }
                let got = is.verif_iterator(&k);
                m.log.push(format!("iterator {} -> {:#x}", hx(&k), got));
                let snap: Vec<Vec<u8>> = m.contents.keys().filter(|x| x.starts_with(&k)).cloned().collect();
                if snap.is_empty() {
                    expect!(m, got, NONE, "iterator over prefix {} without entries", hx(&k));
                } else {
                    let idx = m.iters.len();
                    let want = ((m.gen as u64) << 32) | idx as u64;
                    let same = m.iters.iter().flatten().filter(|i| i.prefix == k).count();
                    if same >= 1 {
                        sh.hit("iterator.same_prefix_again");
                    }
                    if m.iters.iter().flatten().any(|i| i.prefix != k && (k.starts_with(&i.prefix) || i.prefix.starts_with(&k))) {
                        sh.hit("iterator.nested_prefixes");
                    }
                    m.iters.push(Some(IterM { prefix: k.clone(), snapshot: snap, pos: 0, started: false }));
                    expect!(m, got, want, "iterator over prefix {}", hx(&k));
                    issued_i.push(got);
                    sh.hit("iterator.created");
                }
            }
            45..=62 => {
                let it = pick_iter(r, m, issued_i);
                let got = is.verif_iterator_next(&mut energy, it).map_err(|e| format!("iterator_next trapped: {}", e))?;
                m.log.push(format!("iterator_next {:#x} -> {:#x}", it, got));
                let (g, idx) = ((it >> 32) as u32, (it & 0xffff_ffff) as usize);
                let live = g == m.gen && m.iters.get(idx).map(|x| x.is_some()).unwrap_or(false);
                if !live {
                    sh.hit("invalid.iterator_next");
                    expect!(m, got, ERR, "iterator_next on an invalid or deleted iterator {:#x}", it);
                } else {
                    let im = m.iters[idx].as_mut().unwrap();
                    im.started = true;
                    if im.pos >= im.snapshot.len() {
                        im.pos = im.snapshot.len() + 1;
                        sh.hit("iterator.exhausted");
                        expect!(m, got, NONE, "iterator_next on the exhausted iterator {:#x}", it);
                    } else {
                        let key = im.snapshot[im.pos].clone();
                        im.pos += 1;
                        if !m.contents.contains_key(&key) {
                            return Err(format!("model inconsistency: snapshot key {} vanished although it was locked", hx(&key)));
                        }
                        let want = m.new_handle(&key);
                        expect!(m, got, want, "iterator_next of {:#x} (expected to yield key {})", it, hx(&key));
                        issued_h.push(got);
                        // the key the iterator reports must be the snapshot key
                        let sz = is.verif_iterator_key_size(it);
                        expect!(m, sz, key.len() as u32, "iterator_key_size after yielding {}", hx(&key));
                        let mut buf = vec![0u8; key.len() + 3];
                        let n = is.verif_iterator_key_read(it, &mut buf, 0);
                        expect!(m, n, key.len() as u32, "iterator_key_read length after yielding {}", hx(&key));
                        if buf[..key.len()] != key[..] {
                            return Err(format!("iterator {:#x} reports key {} but the snapshot at creation has {} next", it, hx(&buf[..key.len()]), hx(&key)));
                        }
                        sh.hit("iterator.yield");
                    }
                }
            }
            63..=70 | 100 => {
                let it = if drain {
                    match m.iters.iter().position(|x| x.is_some()) {
                        Some(i) => ((m.gen as u64) << 32) | i as u64,
                        None => return Ok(()),
                    }
                } else {
                    pick_iter(r, m, issued_i)
                };
                let got = is.verif_iterator_delete(&mut energy, it).map_err(|e| format!("iterator_delete trapped: {}", e))?;
                m.log.push(format!("iterator_delete {:#x} -> {:#x}", it, got));
                let (g, idx) = ((it >> 32) as u32, (it & 0xffff_ffff) as usize);
                let want = if g != m.gen {
                    u32::MAX
                } else {
                    match m.iters.get_mut(idx) {
                        None => u32::MAX,
                        Some(x) => {
                            if x.is_some() {
                                *x = None;
                                sh.hit("iterator.deleted");
                                1
                            } else {
                                sh.hit("iterator.double_delete");
                                0
                            }
                        }
                    }
                };
                expect!(m, got, want, "iterator_delete of {:#x}", it);
            }
            71..=74 => {
                let it = pick_iter(r, m, issued_i);
                let got = is.verif_iterator_key_size(it);
                let (g, idx) = ((it >> 32) as u32, (it & 0xffff_ffff) as usize);
                let want = if g != m.gen {
                    u32::MAX
                } else {
                    match m.iters.get(idx).and_then(|x| x.as_ref()) {
                        None => u32::MAX,
                        Some(im) => {
                            if !im.started {
                                im.prefix.len() as u32
                            } else if im.pos >= 1 && im.pos <= im.snapshot.len() {
                                im.snapshot[im.pos - 1].len() as u32
                            } else {
                                continue; // position after exhaustion is not documented
                            }
                        }
                    }
                };
                expect!(m, got, want, "iterator_key_size of {:#x}", it);
            }
            75..=82 => {
                let h = pick_handle(r, m, issued_h);
                let len = *r.pick(&[0usize, 1, 5, 70, 300]);
                let off = *r.pick(&[0u32, 1, 63, 64, 65, 1000, u32::MAX]);
                let mut buf = vec![0xa5u8; len];
                let got = is.verif_entry_read(h, &mut buf, off);
                match m.handle_valid(h) {
                    None => {
                        sh.hit("invalid.entry_read");
                        m.log.push(format!("entry_read {:#x} -> {:#x}", h, got));
                        expect!(m, got, u32::MAX, "entry_read through an invalid handle {:#x}", h);
                    }
                    Some(hm) if hm.unspecified => {}
                    Some(hm) => {
                        let v = &m.contents[&hm.key];
                        let o = (off as usize).min(v.len());
                        let n = (v.len() - o).min(len);
                        expect!(m, got, n as u32, "entry_read of {} ({} bytes) at offset {} into {} bytes", hx(&hm.key), v.len(), off, len);
                        if buf[..n] != v[o..o + n] {
                            return Err(format!("entry_read of {} returned other bytes than the model holds", hx(&hm.key)));
                        }
                        sh.hit("entry.read");
                    }
                }
            }
            83..=90 => {
                let h = pick_handle(r, m, issued_h);
                let src = gen_val(r);
                let off = *r.pick(&[0u32, 1, 2, 64, 65, 300, 5000]);
                let got = is.verif_entry_write(&mut energy, h, &src, off).map_err(|e| format!("entry_write trapped: {}", e))?;
                m.log.push(format!("entry_write {:#x} {} bytes at {} -> {:#x}", h, src.len(), off, got));
                match m.handle_valid(h).cloned() {
                    None => {
                        sh.hit("invalid.entry_write");
                        expect!(m, got, u32::MAX, "entry_write through an invalid handle {:#x}", h);
                    }
                    Some(hm) if hm.unspecified => {
                        // keep the model usable: re-read the value later through a fresh lookup
                        let mut buf = vec![0u8; 8192];
                        let fresh = is.verif_lookup_entry(&hm.key);
                        let w = m.new_handle(&hm.key);
                        expect!(m, fresh, w, "lookup_entry of {}", hx(&hm.key));
                        let n = is.verif_entry_read(fresh, &mut buf, 0) as usize;
                        let sz = is.verif_entry_size(fresh) as usize;
                        if n == sz && n <= buf.len() {
                            m.contents.insert(hm.key.clone(), buf[..n].to_vec());
                        } else {
                            return Err("harness: could not resynchronise an unspecified entry".into());
                        }
                    }
                    Some(hm) => {
                        let v = m.contents.get_mut(&hm.key).unwrap();
                        let off = off as usize;
                        if off > v.len() {
                            expect!(m, got, 0u32, "entry_write past the end of {} ({} bytes) at offset {}", hx(&hm.key), v.len(), off);
                        } else {
                            let end = (off + src.len()).min(MAX_ENTRY_SIZE);
                            if v.len() < end {
                                v.resize(end, 0);
                            }
                            v[off..end].copy_from_slice(&src[..end - off]);
                            expect!(m, got, (end - off) as u32, "entry_write to {} at offset {}", hx(&hm.key), off);
                            sh.hit("entry.write");
                        }
                    }
                }
            }
            91..=94 => {
                let h = pick_handle(r, m, issued_h);
                let got = is.verif_entry_size(h);
                match m.handle_valid(h) {
                    None => {
                        sh.hit("invalid.entry_size");
                        m.log.push(format!("entry_size {:#x} -> {:#x}", h, got));
                        expect!(m, got, u32::MAX, "entry_size through an invalid handle {:#x}", h);
                    }
                    Some(hm) if hm.unspecified => {}
                    Some(hm) => {
                        expect!(m, got, m.contents[&hm.key].len() as u32, "entry_size of {}", hx(&hm.key));
                    }
                }
            }
            _ => {
                let h = pick_handle(r, m, issued_h);
                let new = *r.pick(&[0u32, 1, 63, 64, 65, 200, (MAX_ENTRY_SIZE as u32) + 1, u32::MAX]);
                let got = is.verif_entry_resize(&mut energy, h, new).map_err(|e| format!("entry_resize trapped: {}", e))?;
                m.log.push(format!("entry_resize {:#x} to {} -> {:#x}", h, new, got));
                let (g, idx) = ((h >> 32) as u32, (h & 0xffff_ffff) as usize);
                let known = g == m.gen && idx < m.handles.len();
                if !known {
                    expect!(m, got, u32::MAX, "entry_resize through an unknown handle {:#x}", h);
                } else if new as usize > MAX_ENTRY_SIZE {
                    expect!(m, got, 0u32, "entry_resize beyond the maximum entry size");
                } else {
                    match m.handle_valid(h).cloned() {
                        None => {
                            sh.hit("invalid.entry_resize");
                            expect!(m, got, u32::MAX, "entry_resize through a handle to a deleted entry {:#x}", h);
                        }
                        Some(hm) if hm.unspecified => {
                            let fresh = is.verif_lookup_entry(&hm.key);
                            let w = m.new_handle(&hm.key);
                            expect!(m, fresh, w, "lookup_entry of {}", hx(&hm.key));
                            let sz = is.verif_entry_size(fresh) as usize;
                            let mut buf = vec![0u8; sz];
                            let n = is.verif_entry_read(fresh, &mut buf, 0) as usize;
                            if n != sz {
                                return Err("harness: could not resynchronise an unspecified entry".into());
                            }
                            m.contents.insert(hm.key.clone(), buf);
                        }
                        Some(hm) => {
                            m.contents.get_mut(&hm.key).unwrap().resize(new as usize, 0);
                            expect!(m, got, 1u32, "entry_resize of {} to {}", hx(&hm.key), new);
                            sh.hit("entry.resize");
                        }
                    }
                }
            }
        }
    }
    Ok(())
}

pub fn run(ctx: &ChildCtx, sh: &mut Shard) {
    let miri = ctx.san == "miri";
    if miri {
        NEAR_LIMIT.store(3, std::sync::atomic::Ordering::Relaxed);
    }
    for idx in ctx.indices() {
        ctx.begin_case(idx);
        let mut r = ctx.case_rng(idx);
        let huge = !miri && ctx.san.is_empty() && r.chance(1, 150);
        HUGE_KEYS.store(huge, std::sync::atomic::Ordering::Relaxed);
        if huge {
            sh.hit("histories.huge_keys");
        }
        let mut m = M { contents: Model::new(), epoch: BTreeMap::new(), next_epoch: 1, gen: 0, iters: vec![], handles: vec![], log: vec![] };
        let mut keys: Vec<Vec<u8>> = vec![];
        // initial contents, sometimes living on "disk"
        let n0 = r.below(12);
        for _ in 0..n0 {
            let k = near_key(&mut r, &keys);
            keys.push(k.clone());
            m.contents.insert(k.clone(), gen_val(&mut r));
            m.epoch.insert(k, m.next_epoch);
            m.next_epoch += 1;
        }
        let mut store: Vec<u8> = vec![];
        let mut p = PersistentState::from_iterator(m.contents.iter().map(|(k, v)| (&k[..], v.clone())));
        let on_disk = !miri && r.chance(1, 2);
        if on_disk {
            use concordium_smart_contract_engine::v1::trie::Loadable;
            if let Ok(reference) = p.store_update(&mut store) {
                let mut l = Loader::new(store.clone());
                if let Ok(q) = PersistentState::load_from_location(&mut l, reference) {
                    p = q;
                }
            }
        }
        let loader: L = Loader::new(store.clone());
        let mut st: MutableState = p.thaw();
        let segments = 1 + r.below(4);
        let mut suspended: Option<(VerifSuspended, bool)> = None;
        let mut issued_h: Vec<u64> = vec![];
        let mut issued_i: Vec<u64> = vec![];
        let res = vmon_core::catch(|| -> Result<(), String> {
            for seg in 0..=segments {
                let last = seg == segments;
                let mut l2 = loader.clone();
                let inner = st.get_inner(&mut l2);
                let mut is = match suspended.take() {
                    None => InstanceState::new(loader.clone(), inner),
                    Some((s, updated)) => InstanceState::verif_resume(updated, s, loader.clone(), inner),
                };
                let nops = if miri { 6 + r.below(10) } else { 5 + r.below(50) };
                if last {
                    // release every lock, then the lock map must be empty
                    segment(&mut is, &mut m, &mut r, &mut keys, &mut issued_h, &mut issued_i, 64, sh, true)?;
                } else {
                    segment(&mut is, &mut m, &mut r, &mut keys, &mut issued_h, &mut issued_i, nops, sh, false)?;
                }
                sh.evaluations += 1;
                let s = is.verif_suspend();
                // quiescent point: structure and lock map
                {
                    let t = inner.lock();
                    let stt = t.verif_check_structure().map_err(|e| format!("structure check: {}", e))?;
                    let live = m.live_iters() as u64;
                    if stt.lock_refs != live {
                        return Err(format!("lock map holds {} references but {} iterators are alive", stt.lock_refs, live));
                    }
                    if live == 0 && stt.lock_nodes != 0 {
                        return Err(format!("no iterator is alive but the lock map still has {} nodes", stt.lock_nodes));
                    }
                    sh.hit("quiescent.structure_checked");
                }
                if last {
                    let mut l3 = loader.clone();
                    let mut t = inner.lock();
                    check_mutable(&mut t, &mut l3, &m.contents, &[], "final contents")?;
                    break;
                }
                // interrupt
                match r.below(3) {
                    0 => {
                        m.log.push("interrupt: state not changed".into());
                        sh.hit("interrupt.unchanged");
                        suspended = Some((s, false));
                    }
                    1 => {
                        m.log.push("interrupt: nested call changed the state and failed (rolled back)".into());
                        sh.hit("interrupt.rolled_back");
                        let mut l3 = loader.clone();
                        let mut child = st.make_fresh_generation(&mut l3);
                        {
                            let ci = child.get_inner(&mut l3);
                            let mut t = ci.lock();
                            for _ in 0..1 + r.below(4) {
                                let k = key_for(&mut r, &m, &keys);
                                if r.chance(1, 2) {
                                    t.insert(&mut l3, &k, gen_val(&mut r)).map_err(|_| "insert in a fresh generation was refused (locks must not be inherited)".to_string())?;
                                } else {
                                    t.delete(&mut l3, &k).map_err(|_| "delete in a fresh generation was refused (locks must not be inherited)".to_string())?;
                                }
                            }
                        }
                        drop(child);
                        suspended = Some((s, false));
                    }
                    _ => {
                        m.log.push("interrupt: state changed".into());
                        sh.hit("interrupt.changed");
                        let mut l3 = loader.clone();
                        let mut child = st.make_fresh_generation(&mut l3);
                        {
                            let ci = child.get_inner(&mut l3);
                            let mut t = ci.lock();
                            for _ in 0..1 + r.below(4) {
                                let k = key_for(&mut r, &m, &keys);
                                if r.chance(2, 3) {
                                    let v = gen_val(&mut r);
                                    t.insert(&mut l3, &k, v.clone()).map_err(|_| "insert in a fresh generation was refused (locks must not be inherited)".to_string())?;
                                    m.contents.insert(k.clone(), v);
                                    m.epoch.insert(k.clone(), m.next_epoch);
                                    m.next_epoch += 1;
                                    keys.push(k);
                                } else {
                                    t.delete(&mut l3, &k).map_err(|_| "delete in a fresh generation was refused (locks must not be inherited)".to_string())?;
                                    m.contents.remove(&k);
                                    m.epoch.remove(&k);
                                }
                            }
                        }
                        st = child;
                        // everything handed out before is invalid now
                        m.gen += 1;
                        m.iters.clear();
                        m.handles.clear();
                        suspended = Some((s, true));
                    }
                }
            }
            Ok(())
        });
        let h = vmon_core::fnv(m.log.join(";").as_bytes());
        let refused = sh.get("refused.create_under_lock") + sh.get("refused.delete_under_lock");
        let _ = refused;
        if m.log.iter().any(|l| l.starts_with("iterator_next")) && m.log.iter().any(|l| l.starts_with("interrupt")) {
            sh.nontrivial(h);
            sh.hit("histories.nontrivial");
        }
        match res {
            Ok(Ok(())) => {}
            Ok(Err(e)) => sh.violate(idx, "interface-divergence", format!("c15:{:016x}", h), format!("{}\nhistory (initial contents {} keys{}):\n  {}", e, n0, if on_disk { ", loaded from a backing store" } else { "" }, m.log.join("\n  ")), json!({"history": m.log})),
            Err(p) => sh.violate(idx, "panic", format!("c15:panic:{:016x}", h), format!("panic: {}\nhistory:\n  {}", p, m.log.join("\n  ")), json!({"history": m.log})),
        }
        sh.sample(|| json!({"history": m.log.iter().take(50).collect::<Vec<_>>()}));
    }
}
