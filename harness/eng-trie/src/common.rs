//! Shared pieces of the trie monitors: adversarial key/value generators, the
//! shadow model, full read-back comparison through independent read paths.
use concordium_smart_contract_engine::v1::trie::{Loader, MutableState, MutableTrie, PersistentState};
use std::collections::BTreeMap;
use vmon_core::Rng;

pub type Model = BTreeMap<Vec<u8>, Vec<u8>>;
pub type L = Loader<Vec<u8>>;

pub const ALPHABET: [u8; 5] = [0x00, 0x01, 0x10, 0x11, 0xff];

/// Keys over a tiny alphabet whose nibbles collide, of length 0..6, plus long
/// keys that share a long common prefix (stems longer than the inline limit).
/// When set (per history), a third of the generated keys are longer than 32 KiB and share a
/// prefix of more than 32768 bytes (key lengths are legal up to 2^30).
pub static HUGE_KEYS: std::sync::atomic::AtomicBool = std::sync::atomic::AtomicBool::new(false);

pub fn gen_key(r: &mut Rng) -> Vec<u8> {
    if HUGE_KEYS.load(std::sync::atomic::Ordering::Relaxed) && r.chance(1, 3) {
        let mut k = vec![0xab; 32_770 + r.below(3) as usize];
        for _ in 0..1 + r.below(3) {
            k.push(*r.pick(&ALPHABET));
        }
        return k;
    }
    let len = match r.below(12) {
        0 => 0,
        10 => 20 + r.below(300) as usize,
        11 => 120 + r.below(10) as usize,
        _ => 1 + r.below(6) as usize,
    };
    (0..len).map(|i| if len > 10 && i < len - 2 { 0xab } else { *r.pick(&ALPHABET) }).collect()
}

/// A key related to a known key: itself, a prefix, an extension, a sibling.
pub fn near_key(r: &mut Rng, keys: &[Vec<u8>]) -> Vec<u8> {
    if keys.is_empty() || r.chance(1, 4) {
        return gen_key(r);
    }
    let mut k = r.pick(keys).clone();
    match r.below(8) {
        0 => {
            k.pop();
        }
        1 => k.push(*r.pick(&ALPHABET)),
        2 => {
            if let Some(l) = k.last_mut() {
                *l ^= 0x10
            }
        }
        3 => {
            if let Some(l) = k.last_mut() {
                *l ^= 0x01
            }
        }
        4 => {
            let n = r.below(k.len() as u64 + 1) as usize;
            k.truncate(n);
        }
        _ => {}
    }
    k
}

/// Values around the inline/indirect boundary (64 bytes).
pub fn gen_val(r: &mut Rng) -> Vec<u8> {
    let len = *r.pick(&[0usize, 1, 3, 63, 64, 65, 200, 4096]);
    let len = if len == 4096 && !r.chance(1, 8) { 7 } else { len };
    let b = r.next() as u8;
    let mut v = vec![b; len];
    if len > 2 {
        v[1] = r.next() as u8;
        v[len - 1] = r.next() as u8;
    }
    v
}

pub fn hash_bytes(h: &concordium_smart_contract_engine::v1::trie::Hash) -> [u8; 32] { *<concordium_smart_contract_engine::v1::trie::Hash as AsRef<[u8; 32]>>::as_ref(h) }

pub fn model_range<'a>(m: &'a Model, prefix: &[u8]) -> Vec<(&'a Vec<u8>, &'a Vec<u8>)> { m.iter().filter(|(k, _)| k.starts_with(prefix)).collect() }

/// How many model keys get near-miss probes (lowered under Miri).
pub static NEAR_LIMIT: std::sync::atomic::AtomicUsize = std::sync::atomic::AtomicUsize::new(40);

/// Near-miss keys for every model key.
pub fn near_misses(m: &Model) -> Vec<Vec<u8>> {
    let mut out = vec![vec![]];
    for k in m.keys().take(NEAR_LIMIT.load(std::sync::atomic::Ordering::Relaxed)) {
        if !k.is_empty() {
            let mut p = k.clone();
            p.pop();
            out.push(p);
            let mut s = k.clone();
            *s.last_mut().unwrap() ^= 0x10;
            out.push(s);
            let mut s = k.clone();
            *s.last_mut().unwrap() ^= 0x01;
            out.push(s);
        }
        let mut e = k.clone();
        e.push(0x00);
        out.push(e);
        let mut e = k.clone();
        e.push(0x10);
        out.push(e);
    }
    out
}

/// Compare a mutable trie with the model through lookups (model keys and
/// near-miss keys), full iteration from the empty prefix and from `prefixes`,
/// and the structure walker.
pub fn check_mutable(t: &mut MutableTrie, loader: &mut L, m: &Model, prefixes: &[Vec<u8>], what: &str) -> Result<u64, String> {
    let mut reads = 0u64;
    for (k, v) in m {
        let e = t.get_entry(loader, k);
        let got = e.and_then(|e| t.with_entry(e, loader, |b| b.to_vec()));
        reads += 1;
        if got.as_ref() != Some(v) {
            return Err(format!("{}: lookup of {} gives {:?}, model has {} bytes", what, hx(k), got.map(|g| g.len()), v.len()));
        }
    }
    for k in near_misses(m) {
        let e = t.get_entry(loader, &k);
        let got = e.and_then(|e| t.with_entry(e, loader, |b| b.to_vec()));
        reads += 1;
        if got.as_ref() != m.get(&k) {
            return Err(format!("{}: lookup of near-miss key {} gives {:?}, model {:?}", what, hx(&k), got.map(|g| g.len()), m.get(&k).map(|g| g.len())));
        }
    }
    #[cfg(concordium_base_verif)]
    {
        let mut ps: Vec<Vec<u8>> = vec![vec![]];
        ps.extend_from_slice(prefixes);
        for p in ps {
            let expect = model_range(m, &p);
            let it = t.verif_iter(loader, &p).map_err(|_| format!("{}: too many iterators", what))?;
            match it {
                None => {
                    if !expect.is_empty() {
                        return Err(format!("{}: iterator over prefix {} does not exist but the model has {} keys there", what, hx(&p), expect.len()));
                    }
                }
                Some(mut it) => {
                    let mut got: Vec<(Vec<u8>, Vec<u8>)> = vec![];
                    while let Some(e) = t.verif_next(loader, &mut it) {
                        let v = t.with_entry(e, loader, |b| b.to_vec()).ok_or_else(|| format!("{}: iterator yielded a dead entry", what))?;
                        got.push((it.key().to_vec(), v));
                        reads += 1;
                        if got.len() > m.len() + 1 {
                            break;
                        }
                    }
                    // exhausted iterators stay exhausted
                    if t.verif_next(loader, &mut it).is_some() {
                        return Err(format!("{}: exhausted iterator over {} yielded another entry", what, hx(&p)));
                    }
                    if !t.verif_delete_iter(&it) {
                        return Err(format!("{}: deleting the iterator over {} reported that it did not exist", what, hx(&p)));
                    }
                    let exp: Vec<(Vec<u8>, Vec<u8>)> = expect.iter().map(|(k, v)| ((*k).clone(), (*v).clone())).collect();
                    if got != exp {
                        let gk: Vec<String> = got.iter().map(|(k, _)| hx(k)).collect();
                        let ek: Vec<String> = exp.iter().map(|(k, _)| hx(k)).collect();
                        return Err(format!("{}: iteration over prefix {} yields keys {:?}, model (ascending) {:?}{}", what, hx(&p), gk, ek, if gk == ek { " (values differ)" } else { "" }));
                    }
                    if expect.is_empty() {
                        // the documentation says an iterator always yields at least one value
                        return Err(format!("{}: iterator over prefix {} exists but yields nothing", what, hx(&p)));
                    }
                }
            }
        }
        let st = t.verif_check_structure().map_err(|e| format!("{}: {}", what, e))?;
        if st.lock_nodes != 0 {
            return Err(format!("{}: lock map not empty after all iterators were deleted ({} nodes)", what, st.lock_nodes));
        }
    }
    let _ = prefixes;
    Ok(reads)
}

/// Compare a persistent state with the model through `lookup` and
/// `into_iterator`.
pub fn check_persistent(p: &PersistentState, loader: &mut L, m: &Model, what: &str) -> Result<u64, String> {
    let mut reads = 0;
    for (k, v) in m {
        reads += 1;
        match p.lookup(loader, k) {
            Some(x) if &x == v => {}
            o => return Err(format!("{}: persistent lookup of {} gives {:?}, model has {} bytes", what, hx(k), o.map(|x| x.len()), v.len())),
        }
    }
    for k in near_misses(m) {
        reads += 1;
        let got = p.lookup(loader, &k);
        if got.as_ref() != m.get(&k) {
            return Err(format!("{}: persistent lookup of near-miss key {} gives {:?}, model {:?}", what, hx(&k), got.map(|g| g.len()), m.get(&k).map(|g| g.len())));
        }
    }
    let it: Vec<(Vec<u8>, Vec<u8>)> = p.clone().into_iterator(loader).collect();
    let exp: Vec<(Vec<u8>, Vec<u8>)> = m.iter().map(|(k, v)| (k.clone(), v.clone())).collect();
    reads += it.len() as u64;
    if it != exp {
        let gk: Vec<String> = it.iter().map(|(k, _)| hx(k)).collect();
        let ek: Vec<String> = exp.iter().map(|(k, _)| hx(k)).collect();
        return Err(format!("{}: persistent iteration yields {:?}, model (ascending) {:?}", what, gk, ek));
    }
    Ok(reads)
}

pub fn look(st: &mut MutableState, loader: &mut L, k: &[u8]) -> Option<Vec<u8>> {
    let inner = st.get_inner(loader);
    let mut t = inner.lock();
    let e = t.get_entry(loader, k)?;
    t.with_entry(e, loader, |b| b.to_vec())
}

/// Hex for logs and witnesses; long keys are abbreviated (replay regenerates the case anyway).
pub fn hx(b: &[u8]) -> String { vmon_core::hex_short(b, 48) }
