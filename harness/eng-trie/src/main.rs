//! Contract-state trie monitors: C03 (ordered-map behaviour), C04 (canonical
//! hash and persistence), C15 (iterator locks and entry handles).
mod c03;
mod c04;
#[cfg(concordium_base_verif)]
mod c15;
mod common;
mod refhash;

use vmon_core::{ChildCtx, Engine, Plan, SanTier, Shard, Tier};

struct TrieEngine;

const ASSUME: &[&str] = &[
    "shadow model (BTreeMap), reference hash (refhash.rs) and interface model (c15.rs) are correct; they share no code with /repo",
    "shim crate `slab` (checked get_unchecked) stands in for the real crate inside the iterator lock map",
    "the trie is driven single-threaded, as the contract execution engine does",
];

impl Engine for TrieEngine {
    fn name(&self) -> &'static str { "eng-trie" }

    fn props(&self) -> Vec<&'static str> { vec!["C03", "C04", "C15"] }

    fn plan(&self, prop: &str, tier: Tier) -> Plan {
        let quick = tier == Tier::Quick;
        let mut p = Plan { assumptions: ASSUME.iter().map(|s| s.to_string()).collect(), crash_is_violation: true, ..Plan::default() };
        p.timeout_s = if quick { 1800 } else { 4 * 3600 };
                p.budget_s = if quick { 300 } else { 1500 };
        let san = |asan: (u64, u64), miri: (u64, u64)| {
            vec![
                SanTier { name: "asan", shards: 16, cases: if quick { asan.0 } else { asan.1 }, timeout_s: if quick { 1200 } else { 2 * 3600 }, budget_s: if quick { 40 } else { 600 } },
                SanTier { name: "miri", shards: 16, cases: if quick { miri.0 } else { miri.1 }, timeout_s: if quick { 1200 } else { 2 * 3600 }, budget_s: if quick { 45 } else { 600 } },
            ]
        };
        match prop {
            "C03" => {
                p.cases = if quick { 3000 } else { 300_000 };
                p.rule = "case = operation history (10-450 operations: insert, delete, lookup, set, get_mut write/resize, delete_prefix, checkpoint in both calling orders, rollback, commit, freeze/thaw, store+reload) over an adversarial key space, judged against a BTreeMap shadow model at every call and by full read-back (lookups incl. near-miss keys, prefix iteration, persistent lookup/iteration, structure walker) at quiescent points; evaluations = histories; distinct_nontrivial = distinct histories with >= 1 delete of an existing key, >= 1 rollback or freeze, and a non-empty final map".into();
                p.floors = vec![("histories.nontrivial".into(), 500), ("ops.rollback".into(), 500), ("ops.freeze".into(), 200), ("ops.reload".into(), 100), ("ops.delete_prefix".into(), 500), ("ops.get_mut".into(), 500), ("ops.checkpoint_unmaterialised".into(), 200), ("ops.freeze_directly_after_rollback".into(), 100), ("ops.write_through_iterator".into(), 300), ("histories.huge_keys".into(), 50), ("reads.compared".into(), 100_000)];
                p.san = san((400, 20_000), (60, 3000));
            }
            "C04" => {
                p.cases = if quick { 10_000 } else { 200_000 };
                p.rule = "case = contents set (0-43 keys, adversarial alphabet, inline/indirect values) built through 8 different histories (values corrected through entry handles before a checkpoint that is then frozen; emptied and reused mutable state; from_iterator; random insertion order; with extra keys deleted again; generations with rollback and commit; two-stage with persistence in between; extra subtrees removed by delete_prefix after thawing) and a random persistence chain (store/reload, cache, serialize/deserialize, migrate, unmodified and same-value refreeze); every resulting state must hash to the independent reference hash and read back equal; evaluations = built states + chains + pinned vectors; distinct_nontrivial = distinct contents sets with >= 3 keys and >= 1 odd-length stem".into();
                p.floors = vec![("contents.nontrivial".into(), 200), ("history.3".into(), 300), ("history.4".into(), 300), ("history.5".into(), 300), ("history.7".into(), 300), ("chain.store_reload".into(), 100), ("chain.migrate".into(), 100), ("chain.serialize".into(), 100), ("chain.refreeze_unmodified".into(), 100), ("pinned.checked".into(), 96), ("ref.long_stems".into(), 20)];
                p.san = vec![SanTier { name: "miri", shards: 16, cases: if quick { 30 } else { 1000 }, timeout_s: if quick { 1200 } else { 2 * 3600 }, budget_s: if quick { 45 } else { 600 } }];
            }
            "C15" => {
                p.cases = if quick { 12_000 } else { 6_000_000 };
                p.rule = "case = interleaving of contract-visible state operations (create/delete/delete_prefix/lookup, up to 6 simultaneous iterators on equal, nested and disjoint prefixes, iterator next/delete/key reads, entry read/write/size/resize through valid, stale, forged and wrong-generation handles) in 2-5 segments separated by interrupts (state unchanged / nested change rolled back / state changed); every return code is predicted by the interface model; evaluations = segments; distinct_nontrivial = distinct histories with >= 1 iterator_next and >= 1 interrupt".into();
                p.floors = vec![
                    ("histories.nontrivial".into(), 500),
                    ("refused.create_under_lock".into(), 500),
                    ("refused.delete_under_lock".into(), 300),
                    ("refused.delete_prefix_related_to_lock".into(), 300),
                    ("iterator.yield".into(), 2000),
                    ("iterator.exhausted".into(), 100),
                    ("iterator.double_delete".into(), 20),
                    ("iterator.same_prefix_again".into(), 50),
                    ("iterator.nested_prefixes".into(), 100),
                    ("invalid.entry_read".into(), 300),
                    ("invalid.iterator_next".into(), 300),
                    ("interrupt.changed".into(), 300),
                    ("interrupt.rolled_back".into(), 300),
                    ("interrupt.unchanged".into(), 300),
                    ("histories.huge_keys".into(), 100),
                ];
                p.san = vec![SanTier { name: "asan", shards: 16, cases: if quick { 300 } else { 20_000 }, timeout_s: if quick { 1200 } else { 2 * 3600 }, budget_s: if quick { 40 } else { 600 } }];
            }
            _ => {}
        }
        p
    }

    fn run_child(&self, ctx: &ChildCtx, out: &mut Shard) {
        match ctx.prop.as_str() {
            "C03" => c03::run(ctx, out),
            "C04" => c04::run(ctx, out),
            #[cfg(concordium_base_verif)]
            "C15" => c15::run(ctx, out),
            _ => out.inconclusive.push("property not available in this build".into()),
        }
    }
}

fn main() { vmon_core::main_engine(&TrieEngine) }
