//! Independent reference for the state hash: builds the canonical
//! path-compressed radix-16 tree directly from the sorted contents and hashes
//! it by the documented construction. Shares no code with the trie.
//!
//!   H(value)  = SHA-256(len as u64 BE || bytes)
//!   H(node)   = SHA-256( (01 || H(value)) or 00,
//!                        stem length in nibbles as u64 LE,
//!                        stem nibbles packed high nibble first (an unused low nibble is zero),
//!                        SHA-256(child count as u16 BE, then per child: nibble byte, H(child)) )
//!   H(empty)  = SHA-256("empty contract state")
use crate::common::Model;
use sha2::{Digest, Sha256};

fn nibbles(k: &[u8]) -> Vec<u8> {
    let mut v = Vec::with_capacity(k.len() * 2);
    for b in k {
        v.push(b >> 4);
        v.push(b & 0x0f);
    }
    v
}

fn pack(n: &[u8]) -> Vec<u8> {
    let mut out = vec![];
    for c in n.chunks(2) {
        out.push((c[0] << 4) | c.get(1).copied().unwrap_or(0));
    }
    out
}

fn hash_value(v: &[u8]) -> [u8; 32] {
    let mut h = Sha256::new();
    h.update((v.len() as u64).to_be_bytes());
    h.update(v);
    h.finalize().into()
}

/// `items`: sorted (nibble key, value) pairs, all sharing the first `depth` nibbles.
fn node_hash(items: &[(Vec<u8>, &Vec<u8>)], depth: usize, stats: &mut Stats) -> [u8; 32] {
    // longest common prefix beyond depth
    let first = &items[0].0;
    let last = &items[items.len() - 1].0;
    let mut lcp = 0;
    while depth + lcp < first.len() && depth + lcp < last.len() && first[depth + lcp] == last[depth + lcp] {
        lcp += 1;
    }
    let stem = &first[depth..depth + lcp];
    let here = depth + lcp;
    let mut rest = items;
    let mut h = Sha256::new();
    if rest[0].0.len() == here {
        h.update([1]);
        h.update(hash_value(rest[0].1));
        rest = &rest[1..];
    } else {
        h.update([0]);
    }
    h.update((stem.len() as u64).to_le_bytes());
    h.update(pack(stem));
    stats.nodes += 1;
    if stem.len() % 2 == 1 {
        stats.odd_stems += 1;
    }
    if stem.len() > 63 {
        stats.long_stems += 1;
    }
    // group by next nibble
    let mut children: Vec<(u8, [u8; 32])> = vec![];
    let mut i = 0;
    while i < rest.len() {
        let nib = rest[i].0[here];
        let mut j = i;
        while j < rest.len() && rest[j].0[here] == nib {
            j += 1;
        }
        children.push((nib, node_hash(&rest[i..j], here + 1, stats)));
        i = j;
    }
    stats.max_children = stats.max_children.max(children.len());
    let mut ch = Sha256::new();
    ch.update((children.len() as u16).to_be_bytes());
    for (nib, hh) in children {
        ch.update([nib]);
        ch.update(hh);
    }
    h.update(ch.finalize());
    h.finalize().into()
}

#[derive(Default, Debug, Clone)]
pub struct Stats {
    pub nodes: usize,
    pub odd_stems: usize,
    pub long_stems: usize,
    pub max_children: usize,
}

pub fn reference_hash(m: &Model) -> ([u8; 32], Stats) {
    let mut stats = Stats::default();
    if m.is_empty() {
        return (Sha256::digest(b"empty contract state").into(), stats);
    }
    let items: Vec<(Vec<u8>, &Vec<u8>)> = m.iter().map(|(k, v)| (nibbles(k), v)).collect();
    (node_hash(&items, 0, &mut stats), stats)
}
