//! C09, clause "only permitted imports and exports": the chain's import
//! allow-lists (v0 and v1) and export naming rules, probed with modules that
//! import one function with the documented type (must validate), with a
//! perturbed type / a duplicate / an unknown name or module (must be
//! rejected), and exports whose names and types are on both sides of the
//! documented rules. The table is a transcription of the host interface
//! (`concordium` module, names and Wasm signatures) as documented in
//! v0/types.rs and v1/types.rs.
use concordium_smart_contract_engine::{v0, v1};
use concordium_wasm::{parse::parse_skeleton, validate::{validate_module, ValidationConfig}};
use vmon_core::{json, Rng, Shard};
use wasmref::ast::*;

use Ty::{I32, I64};

pub const V0_IMPORTS: &[(&str, &[Ty], Option<Ty>)] = &[
    ("accept", &[], Some(I32)),
    ("simple_transfer", &[I32, I64], Some(I32)),
    ("send", &[I64, I64, I32, I32, I64, I32, I32], Some(I32)),
    ("combine_and", &[I32, I32], Some(I32)),
    ("combine_or", &[I32, I32], Some(I32)),
    ("get_parameter_size", &[], Some(I32)),
    ("get_parameter_section", &[I32, I32, I32], Some(I32)),
    ("get_policy_section", &[I32, I32, I32], Some(I32)),
    ("log_event", &[I32, I32], Some(I32)),
    ("load_state", &[I32, I32, I32], Some(I32)),
    ("write_state", &[I32, I32, I32], Some(I32)),
    ("resize_state", &[I32], Some(I32)),
    ("state_size", &[], Some(I32)),
    ("get_init_origin", &[I32], None),
    ("get_receive_invoker", &[I32], None),
    ("get_receive_self_address", &[I32], None),
    ("get_receive_self_balance", &[], Some(I64)),
    ("get_receive_sender", &[I32], None),
    ("get_receive_owner", &[I32], None),
    ("get_slot_time", &[], Some(I64)),
];

pub const V1_IMPORTS: &[(&str, &[Ty], Option<Ty>)] = &[
    ("invoke", &[I32, I32, I32], Some(I64)),
    ("write_output", &[I32, I32, I32], Some(I32)),
    ("get_parameter_size", &[I32], Some(I32)),
    ("get_parameter_section", &[I32, I32, I32, I32], Some(I32)),
    ("get_policy_section", &[I32, I32, I32], Some(I32)),
    ("log_event", &[I32, I32], Some(I32)),
    ("get_init_origin", &[I32], None),
    ("get_receive_invoker", &[I32], None),
    ("get_receive_self_address", &[I32], None),
    ("get_receive_self_balance", &[], Some(I64)),
    ("get_receive_sender", &[I32], None),
    ("get_receive_owner", &[I32], None),
    ("get_receive_entrypoint_size", &[], Some(I32)),
    ("get_receive_entrypoint", &[I32], None),
    ("get_slot_time", &[], Some(I64)),
    ("state_lookup_entry", &[I32, I32], Some(I64)),
    ("state_create_entry", &[I32, I32], Some(I64)),
    ("state_delete_entry", &[I32, I32], Some(I32)),
    ("state_delete_prefix", &[I32, I32], Some(I32)),
    ("state_iterate_prefix", &[I32, I32], Some(I64)),
    ("state_iterator_next", &[I64], Some(I64)),
    ("state_iterator_delete", &[I64], Some(I32)),
    ("state_iterator_key_size", &[I64], Some(I32)),
    ("state_iterator_key_read", &[I64, I32, I32, I32], Some(I32)),
    ("state_entry_read", &[I64, I32, I32, I32], Some(I32)),
    ("state_entry_write", &[I64, I32, I32, I32], Some(I32)),
    ("state_entry_size", &[I64], Some(I32)),
    ("state_entry_resize", &[I64, I32], Some(I32)),
    ("verify_ed25519_signature", &[I32, I32, I32, I32], Some(I32)),
    ("verify_ecdsa_secp256k1_signature", &[I32, I32, I32], Some(I32)),
    ("hash_sha2_256", &[I32, I32, I32], None),
    ("hash_sha3_256", &[I32, I32, I32], None),
    ("hash_keccak_256", &[I32, I32, I32], None),
];

fn module_with_imports(imps: &[(&str, &str, Vec<Ty>, Option<Ty>)], export: Option<(&str, Vec<Ty>, Option<Ty>)>) -> Vec<u8> {
    let mut m = Module::default();
    for (mo, na, p, r) in imps {
        m.types.push(FuncTy { params: p.clone(), result: *r });
        m.imports.push(Import { module: mo.to_string(), name: na.to_string(), ty: m.types.len() as u32 - 1 });
    }
    if let Some((name, p, r)) = export {
        m.types.push(FuncTy { params: p, result: r });
        let ty = m.types.len() as u32 - 1;
        let body = match r {
            Some(I32) => vec![Instr::Const32(0)],
            Some(I64) => vec![Instr::Const64(0)],
            None => vec![],
        };
        m.funcs.push(Func { ty, locals: vec![], body });
        m.exports.push((name.to_string(), m.imports.len() as u32));
    }
    m.encode()
}

fn accepts(bytes: &[u8], v1: bool, upgrade: bool) -> Result<bool, String> {
    vmon_core::catch(|| {
        let sk = match parse_skeleton(bytes) {
            Ok(s) => s,
            Err(_) => return false,
        };
        if v1 {
            validate_module(ValidationConfig::V1, &v1::ConcordiumAllowedImports { support_upgrade: upgrade, enable_debug: false }, &sk).is_ok()
        } else {
            validate_module(ValidationConfig::V0, &v0::ConcordiumAllowedImports, &sk).is_ok()
        }
    })
}

/// One probe of the allow-list; returns through `sh`.
pub fn probe(r: &mut Rng, sh: &mut Shard, idx: u64) {
    let v1 = r.chance(1, 2);
    let table = if v1 { V1_IMPORTS } else { V0_IMPORTS };
    let (name, params, result) = *r.pick(table);
    let upgrade = r.chance(1, 2);
    let mut p: Vec<Ty> = params.to_vec();
    let mut res = result;
    let mut modname = "concordium".to_string();
    let mut item = name.to_string();
    let mut dup = false;
    let (label, expect): (&str, bool) = match r.below(10) {
        0 | 1 => ("exact", true),
        2 => {
            if p.is_empty() {
                p.push(I32);
            } else {
                let i = r.below(p.len() as u64) as usize;
                p[i] = if p[i] == I32 { I64 } else { I32 };
            }
            ("param_type_changed", false)
        }
        3 => {
            p.push(*r.pick(&[I32, I64]));
            ("param_added", false)
        }
        4 => {
            if p.is_empty() {
                res = match res {
                    None => Some(I32),
                    Some(_) => None,
                };
            } else {
                p.pop();
            }
            ("param_removed", false)
        }
        5 => {
            res = match res {
                None => Some(I32),
                Some(I32) => Some(I64),
                Some(I64) => Some(I32),
            };
            ("result_changed", false)
        }
        6 => {
            dup = true;
            ("duplicate_import", false)
        }
        7 => {
            modname = r.pick(&["env", "concordium2", "Concordium", ""]).to_string();
            ("wrong_module", false)
        }
        8 => {
            item = match r.below(3) {
                0 => format!("{}_", name),
                1 => name.to_uppercase(),
                _ => "state_entry_reed".to_string(),
            };
            ("unknown_name", false)
        }
        _ => {
            // upgrade exists only under support_upgrade (v1)
            if v1 {
                item = "upgrade".into();
                p = vec![I32];
                res = Some(I64);
                ("upgrade", upgrade)
            } else {
                item = "upgrade".into();
                p = vec![I32];
                res = Some(I64);
                ("upgrade_in_v0", false)
            }
        }
    };
    let mut imps = vec![(modname.as_str(), item.as_str(), p.clone(), res)];
    if dup {
        imps.push((modname.as_str(), item.as_str(), p.clone(), res));
    }
    let bytes = module_with_imports(&imps, None);
    judge(sh, idx, &format!("import.{}", label), &bytes, v1, upgrade, expect, &format!("{}.{} {:?}->{:?}", modname, item, p, res));

    // exports
    let good_ty = (vec![I64], Some(I32));
    let (ename, ety, eexpect, elabel): (String, (Vec<Ty>, Option<Ty>), bool, &str) = match r.below(9) {
        0 => ("init_contract".into(), good_ty.clone(), true, "init_ok"),
        1 => ("contract.receive".into(), good_ty.clone(), true, "receive_ok"),
        2 => ("init_contract".into(), (vec![I32], Some(I32)), false, "init_wrong_type"),
        3 => ("contract.receive".into(), (vec![I64], None), false, "receive_wrong_type"),
        // starts with init_ but contains a dot: not an init name; v0 rejects it, v1 treats it
        // like any other exported helper (the implementation says "otherwise we do not care")
        4 => ("init_con.tract".into(), good_ty.clone(), v1, "init_with_dot"),
        5 => (format!("init_{}", "a".repeat(95)), good_ty.clone(), true, "name_100"),
        6 => (format!("init_{}", "a".repeat(96)), good_ty.clone(), false, "name_101"),
        7 => ("init_a b".into(), good_ty.clone(), false, "name_with_space"),
        // a name that is neither init nor receive: v1 does not care about it, v0 rejects it
        _ => ("helper".into(), (vec![I32], None), v1, "other_name"),
    };
    let bytes = module_with_imports(&[], Some((&ename, ety.0.clone(), ety.1)));
    judge(sh, idx, &format!("export.{}", elabel), &bytes, v1, upgrade, eexpect, &format!("export {} {:?}->{:?}", ename, ety.0, ety.1));
}

fn judge(sh: &mut Shard, idx: u64, label: &str, bytes: &[u8], v1: bool, upgrade: bool, expect: bool, what: &str) {
    sh.evaluations += 1;
    sh.hit(&format!("allowlist.{}.{}", if v1 { "v1" } else { "v0" }, label));
    sh.hit(if expect { "allowlist.expect_accept" } else { "allowlist.expect_reject" });
    match accepts(bytes, v1, upgrade) {
        Err(p) => sh.violate(idx, "panic", format!("allowlist:panic:{:016x}", vmon_core::fnv(bytes)), format!("validation panicked on {}: {}", what, p), json!({"bytes_hex": vmon_core::hex(bytes)})),
        Ok(got) if got != expect => sh.violate(
            idx,
            "allowlist",
            format!("allowlist:{}:{}:{}:{}", if v1 { "v1" } else { "v0" }, label, what, upgrade),
            format!("{} host interface, {} (support_upgrade={}): module was {} but the documented allow-list says {}", if v1 { "v1" } else { "v0" }, what, upgrade, if got { "accepted" } else { "rejected" }, if expect { "accept" } else { "reject" }),
            json!({"bytes_hex": vmon_core::hex(bytes), "what": what}),
        ),
        Ok(_) => {}
    }
}
