//! C01: differential execution of generated, valid modules against the
//! reference interpreter (plain, metered-V0 and metered-V1 artifacts).
use crate::common::*;
use vmon_core::{json, ChildCtx, Shard};
use wasmref::{ast::*, refint::*};

pub const WHICH: [&str; 3] = ["m0", "m1", "plain"];

fn pick<'a>(a: &'a Arts, which: &str) -> &'a Art {
    match which {
        "m0" => &a.m0,
        "m1" => &a.m1,
        _ => &a.plain,
    }
}

/// Does the engine (artifact `which`) disagree with the reference on this
/// module/export/args? Used by the shrinker; false for anything unjudgeable.
pub fn diverges(m: &Module, v1: bool, export: &str, fidx: u32, args: &[V], which: &str) -> bool {
    let rr = run_ref(m, fidx, args, Cost::None);
    if matches!(rr.out, Out::Skip(_)) {
        return false;
    }
    let arts = match instantiate_all(&m.encode(), v1) {
        Inst::Ok(a) => a,
        _ => return false,
    };
    let er = run_engine(pick(&arts, which), export, args, 1 << 40, 0, rr.steps * 50 + 100_000, false);
    match er.out {
        Out::StepLimit | Out::Skip(_) => false,
        o => o != rr.out,
    }
}

pub fn run(ctx: &ChildCtx, sh: &mut Shard) {
    for idx in ctx.indices() {
        ctx.begin_case(idx);
        let mut r = ctx.case_rng(idx);
        let v1 = r.chance(1, 2);
        let mut cfg = pick_cfg(&mut r, v1);
        let miri = ctx.san == "miri";
        if miri {
            cfg = wasmref::gen::Cfg { memless: true, max_iters: 2, fn_budget: 30, max_funcs: 3, ..wasmref::gen::Cfg::small(v1) };
        }
        let m = wasmref::gen::gen_module(&mut r, &cfg);
        let bytes = m.encode();
        sh.hit("modules");
        let arts = match instantiate_all(&bytes, v1) {
            Inst::Ok(a) => a,
            Inst::Rejected(e) => {
                // generated modules are valid by construction; C09 owns this verdict
                sh.hit("modules.rejected_by_engine");
                if ctx.replaying() {
                    println!("engine rejected the module: {}", e);
                }
                continue;
            }
            Inst::Panic(p) => {
                sh.violate(idx, "compile-panic", format!("compile-panic:{:016x}", vmon_core::fnv(&bytes)), format!("validation/compilation panicked: {}", p), case_json(&m, v1, "-", &[], "all"));
                continue;
            }
        };
        let mut nontrivial = false;
        for (name, fidx) in &m.exports {
            let fty = export_type(&m, *fidx).clone();
            for _ in 0..(if miri { 1 } else { 3 }) {
                let args = gen_args(&mut r, &fty);
                let rr = run_ref_fuel(&m, *fidx, &args, Cost::None, if miri { 1500 } else { REF_FUEL });
                if let Out::Skip(w) = &rr.out {
                    sh.hit(&format!("skip.{}", w.split(':').next().unwrap_or("")));
                    continue;
                }
                record_ref_cov(sh, &rr);
                let taken = rr.br[0] + rr.br[1] + rr.br[2] + rr.br[3] + rr.br[4] + rr.br[5] + rr.br[8] + rr.br[9];
                if rr.steps >= 30 && taken >= 1 {
                    nontrivial = true;
                    sh.hit("executions.nontrivial");
                }
                match &rr.out {
                    Out::Trap => sh.hit("ref.trap"),
                    _ => sh.hit("ref.success"),
                }
                for (wi, which) in WHICH.iter().copied().enumerate() {
                    if miri && wi as u64 != idx % 3 {
                        continue;
                    }
                    let er = run_engine(pick(&arts, which), name, &args, 1 << 40, 0, rr.steps * 50 + 100_000, false);
                    sh.evaluations += 1;
                    #[cfg(concordium_base_verif)]
                    record_hook_cov(sh, &er.hooks);
                    if er.out == rr.out {
                        continue;
                    }
                    if !sh.violation_budget_left() {
                        sh.hit("violation.suppressed");
                        continue;
                    }
                    let kind = match &er.out {
                        Out::Panic(p) if p.contains("verif-hook") => "bounds-hook",
                        Out::Panic(_) => "engine-panic",
                        Out::StepLimit => "engine-livelock",
                        _ => "divergence",
                    };
                    // minimise
                    let name2 = name.clone();
                    let sm = if kind == "divergence" {
                        wasmref::shrink::shrink(m.clone(), |c| diverges(c, v1, &name2, *fidx, &args, which), 3000)
                    } else {
                        m.clone()
                    };
                    let rr2 = run_ref(&sm, *fidx, &args, Cost::None);
                    let detail = format!(
                        "artifact {} export {} args {:?}: reference {} engine {}{} (on the minimised module: reference {})",
                        which,
                        name,
                        args,
                        rr.out.brief(),
                        er.out.brief(),
                        rr.out.mem_diff(&er.out).map(|d| format!(" [{}]", d)).unwrap_or_default(),
                        rr2.out.brief()
                    );
                    sh.violate(idx, kind, signature(&sm, v1, name, &args, which, kind), detail, case_json(&sm, v1, name, &args, which));
                }
            }
        }
        if nontrivial {
            sh.nontrivial(vmon_core::fnv(&bytes));
        }
        sh.sample(|| json!({"validation_config": if v1 {"V1"} else {"V0"}, "module_hex": vmon_core::hex_short(&bytes, 200), "module_text": wasmref::show::show_mod(&m).chars().take(1500).collect::<String>()}));
    }
}
