//! C02: energy metering. Oracles:
//!  (a) host-observed energy == schedule summed over the instructions the
//!      reference executed (success) / >= (trap);
//!  (b) identical executions charge identically;
//!  (c) every memory.grow is announced (account_memory) with the same page
//!      count, in order, while the memory still has its old size;
//!  (d) charge windows: no (depth, function, pc) is dispatched twice without a
//!      positive charge in between, and steps <= 3*L*(positive charges+1)+L;
//!  (e) a larger budget changes only the remaining energy, by the difference;
//!  (f) a budget below the total ends in out-of-energy, at once.
//! D: absolute trap messages; where inside a segment the tick sits; outcome
//! divergences from the reference are C01's verdict and are only counted here.
use crate::common::*;
use concordium_wasm::artifact::RunnableCode;
use vmon_core::{json, ChildCtx, Shard};
use wasmref::{ast::*, refint::*};

const AMPLE: u64 = 1 << 40;

fn energy_bad(rr: &RefRun, er: &EngRun) -> bool {
    match rr.out {
        Out::Ok(..) => er.ticked != rr.energy,
        Out::Trap => er.ticked < rr.energy,
        _ => false,
    }
}

fn art_of<'a>(a: &'a Arts, v0: bool) -> &'a Art {
    if v0 {
        &a.m0
    } else {
        &a.m1
    }
}

fn still_energy_bad(m: &Module, v1: bool, v0cost: bool, export: &str, fidx: u32, args: &[V]) -> bool {
    let rr = run_ref(m, fidx, args, if v0cost { Cost::V0 } else { Cost::V1 });
    if matches!(rr.out, Out::Skip(_)) {
        return false;
    }
    let arts = match instantiate_all(&m.encode(), v1) {
        Inst::Ok(a) => a,
        _ => return false,
    };
    let er = run_engine(art_of(&arts, v0cost), export, args, AMPLE, 0, rr.steps * 50 + 100_000, false);
    er.out == rr.out && energy_bad(&rr, &er)
}

pub fn run(ctx: &ChildCtx, sh: &mut Shard) {
    for idx in ctx.indices() {
        ctx.begin_case(idx);
        let mut r = ctx.case_rng(idx);
        if idx % 16 == 7 {
            crate::chain_energy::probe(&mut r, sh, idx);
            continue;
        }
        let v1 = r.chance(1, 2);
        let mut cfg = pick_cfg(&mut r, v1);
        if r.chance(2, 5) {
            cfg.loop_heavy = true;
            cfg.max_iters = 1 + r.below(40);
            sh.hit("modules.loop_heavy");
        }
        let m = if idx % 64 == 11 {
            // one very long straight-line segment: its summed price exceeds 16 bits
            sh.hit("modules.long_segment");
            let mut m = Module::default();
            m.types.push(FuncTy { params: vec![], result: Some(Ty::I32) });
            let n = *r.pick(&[65_530usize, 65_536, 65_540, 70_000, 131_080]);
            let mut body = vec![Instr::Op(OP_NOP); n];
            for _ in 0..r.below(200) {
                body.push(Instr::Const32(r.i32v()));
                body.push(Instr::Op(OP_DROP));
            }
            body.push(Instr::Const32(7));
            m.funcs.push(Func { ty: 0, locals: vec![], body });
            m.exports.push(("w0".into(), 0));
            m
        } else {
            wasmref::gen::gen_module(&mut r, &cfg)
        };
        let bytes = m.encode();
        sh.hit("modules");
        let arts = match instantiate_all(&bytes, v1) {
            Inst::Ok(a) => a,
            _ => {
                sh.hit("modules.not_instantiated");
                continue;
            }
        };
        let mut nontrivial = false;
        for (name, fidx) in &m.exports {
            let fty = export_type(&m, *fidx).clone();
            for _ in 0..2 {
                let args = gen_args(&mut r, &fty);
                for v0cost in [true, false] {
                    let which = if v0cost { "m0" } else { "m1" };
                    let art = art_of(&arts, v0cost);
                    let rr = run_ref(&m, *fidx, &args, if v0cost { Cost::V0 } else { Cost::V1 });
                    if matches!(rr.out, Out::Skip(_)) {
                        sh.hit("skip.ref");
                        continue;
                    }
                    let limit = rr.steps * 50 + 100_000;
                    let e1 = run_engine(art, name, &args, AMPLE, 0, limit, true);
                    if e1.out != rr.out {
                        // C01 owns outcome conformance
                        sh.hit("skip.outcome_differs_from_reference");
                        continue;
                    }
                    sh.evaluations += 1;
                    let case = || case_json(&m, v1, name, &args, which);
                    let sig = |k: &str| signature(&m, v1, name, &args, which, k);
                    // (a)
                    if energy_bad(&rr, &e1) {
                        let name2 = name.clone();
                        // delta-debugging recompiles the module for every candidate: bound it by size
                        let size: usize = m.funcs.iter().map(|f| wasmref::show::count(&f.body)).sum();
                        let tests = if size > 5000 { 0 } else { 2000 };
                        let sm = wasmref::shrink::shrink(m.clone(), |c| still_energy_bad(c, v1, v0cost, &name2, *fidx, &args), tests);
                        let rr2 = run_ref(&sm, *fidx, &args, if v0cost { Cost::V0 } else { Cost::V1 });
                        sh.violate(
                            idx,
                            if matches!(rr.out, Out::Ok(..)) { "energy-mismatch" } else { "undercharge-on-trap" },
                            signature(&sm, v1, name, &args, which, "energy"),
                            format!("schedule summed over executed instructions = {} but host was charged {} (outcome {}); on the minimised module the reference sum is {}", rr.energy, e1.ticked, rr.out.brief(), rr2.energy),
                            case_json(&sm, v1, name, &args, which),
                        );
                    } else if matches!(rr.out, Out::Ok(..)) {
                        sh.hit("energy.exact");
                    } else {
                        sh.hit("energy.trap_at_least");
                    }
                    // (c)
                    if e1.grow != rr.grow {
                        sh.violate(idx, "grow-announcement", sig("grow"), format!("memory.grow requests (pages, pages before) reference {:?} vs account_memory calls seen by host {:?}", rr.grow, e1.grow), case());
                    }
                    sh.add("grow.events", rr.grow.len() as u64);
                    // (b)
                    let e2 = run_engine(art, name, &args, AMPLE, 0, limit, false);
                    if e2.out != e1.out || e2.ticked != e1.ticked || e2.grow != e1.grow {
                        sh.violate(idx, "nondeterministic", sig("nondet"), format!("two identical executions: {} / {} energy vs {} / {}", e1.out.brief(), e1.ticked, e2.out.brief(), e2.ticked), case());
                    }
                    // (d)
                    #[cfg(concordium_base_verif)]
                    {
                        let h = &e1.hooks;
                        sh.max("max.window_steps", h.max_window);
                        sh.add("ticks.positive", h.positive_ticks);
                        sh.add("ticks.zero", h.ticks - h.positive_ticks);
                        if let Some((d, f, pc)) = h.window_repeat {
                            sh.violate(idx, "free-cycle", sig("cycle"), format!("(depth {}, function {}, pc {}) was dispatched twice without a positive energy charge in between", d, f, pc), case());
                        }
                        let l = art.code.iter().map(|c| c.code().len() as u64).max().unwrap_or(0);
                        let bound = 3 * l * (h.positive_ticks + 1) + l;
                        if h.steps > bound {
                            sh.violate(idx, "step-bound", sig("steps"), format!("{} interpreter steps > 3*L*(positive charges+1)+L = {} (L = {}, positive charges = {})", h.steps, bound, l, h.positive_ticks), case());
                        }
                        if h.ticked_total != e1.ticked {
                            sh.violate(idx, "tick-accounting", sig("tickacct"), format!("TickEnergy operands sum to {} but the host was asked for {}", h.ticked_total, e1.ticked), case());
                        }
                        if h.positive_ticks >= 3 && rr.br[11] + rr.host_calls >= 1 {
                            nontrivial = true;
                        }
                    }
                    #[cfg(not(concordium_base_verif))]
                    {
                        if rr.steps >= 30 {
                            nontrivial = true;
                        }
                    }
                    // (e), (f) budget sweep on a sample
                    if r.chance(1, 3) {
                        let total = e1.ticked;
                        sh.hit("budget.sweeps");
                        let mut budgets = vec![(total, false), (total + 977, false)];
                        if total >= 1 {
                            budgets.push((total - 1, true));
                            budgets.push((0, true));
                        }
                        if total >= 2 {
                            budgets.push((total / 2, true));
                            budgets.push((r.below(total), true));
                        }
                        for (b, expect_ooe) in budgets {
                            let e = run_engine(art, name, &args, b, 0, limit, false);
                            sh.evaluations += 1;
                            if expect_ooe {
                                if e.out != Out::OutOfEnergy {
                                    sh.violate(idx, "budget-not-enforced", sig(&format!("ooe{}", b)), format!("total cost is {} but with budget {} the run ended as {} instead of out-of-energy", total, b, e.out.brief()), case());
                                } else {
                                    sh.hit("budget.ooe_observed");
                                    if e.calls_after_ooe != 0 {
                                        sh.violate(idx, "runs-after-ooe", sig(&format!("after{}", b)), format!("{} host callbacks after out-of-energy was signalled (budget {})", e.calls_after_ooe, b), case());
                                    }
                                }
                            } else if e.out != e1.out || e.remaining != b - total || e.ticked != total || e.grow != e1.grow || e.log != e1.log {
                                sh.violate(
                                    idx,
                                    "budget-dependence",
                                    sig(&format!("bud{}", b - total)),
                                    format!("budget {} (total cost {}): outcome {} remaining {} charged {}; with ample budget: outcome {} charged {}", b, total, e.out.brief(), e.remaining, e.ticked, e1.out.brief(), e1.ticked),
                                    case(),
                                );
                            } else {
                                sh.hit("budget.exact_remaining");
                            }
                        }
                    }
                }
            }
        }
        if nontrivial {
            sh.nontrivial(vmon_core::fnv(&bytes));
            sh.hit("modules.nontrivial");
        }
        sh.sample(|| json!({"validation_config": if v1 {"V1"} else {"V0"}, "module_hex": vmon_core::hex_short(&bytes, 200), "module_text": wasmref::show::show_mod(&m).chars().take(1500).collect::<String>()}));
    }
}
