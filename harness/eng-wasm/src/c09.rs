//! C09: validation admits only safe modules; parsing/validation/compilation
//! are total.
//!  (a) arbitrary bytes never panic the parser/validator/compiler and stay
//!      within an allocation bound;
//!  (b) the engine accepts a byte string iff the independent reference
//!      validator (wasmref::valid) does;
//!  (c) whatever validates also compiles;
//!  (d) executing an accepted module never trips a bounds hook or panics.
//! D: which error is reported; cases where the two readings of "operand stack
//! height" (all pushes / reachable pushes) disagree on the 1024 bound are not
//! judged; the import/export allow-list is checked in a separate table test.
use crate::common::*;
use concordium_wasm::{
    artifact::ArtifactNamedImport,
    parse::parse_skeleton,
    validate::validate_module,
};
use vmon_core::{json, ChildCtx, Shard};
use wasmref::{mutate::*, refint::V, valid};

#[derive(Debug)]
enum EngVerdict {
    Accepted,
    Rejected(String),
    ValidButNoCompile(String),
    Panic(String),
}

fn engine_verdict(bytes: &[u8], v1: bool) -> (EngVerdict, Option<Art>, vmon_core::alloc::AllocStats) {
    let (r, st) = vmon_core::alloc::measure(|| {
        vmon_core::catch(|| -> Result<Result<Art, String>, String> {
            let sk = parse_skeleton(bytes).map_err(|e| format!("{:#}", e))?;
            let m = validate_module(vcfg_of(v1), &AllowAll, &sk).map_err(|e| format!("{:#}", e))?;
            Ok(m.compile::<ArtifactNamedImport>().map_err(|e| format!("{:#}", e)))
        })
    });
    match r {
        Err(p) => (EngVerdict::Panic(p), None, st),
        Ok(Err(e)) => (EngVerdict::Rejected(e), None, st),
        Ok(Ok(Err(e))) => (EngVerdict::ValidButNoCompile(e), None, st),
        Ok(Ok(Ok(a))) => (EngVerdict::Accepted, Some(a), st),
    }
}

pub fn run(ctx: &ChildCtx, sh: &mut Shard) {
    let miri = ctx.san == "miri";
    for idx in ctx.indices() {
        ctx.begin_case(idx);
        let mut r = ctx.case_rng(idx);
        if idx % 16 == 5 && !miri {
            crate::allowlist::probe(&mut r, sh, idx);
            continue;
        }
        let v1 = r.chance(1, 2);
        let cfg = if miri { wasmref::gen::Cfg { memless: true, max_iters: 2, fn_budget: 25, max_funcs: 2, ..wasmref::gen::Cfg::small(v1) } } else { pick_cfg(&mut r, v1) };
        let mut expected: Option<bool> = None;
        let src = r.below(100);
        let (bytes, label): (Vec<u8>, String) = if src < 10 {
            expected = Some(true);
            (wasmref::gen::gen_module(&mut r, &cfg).encode(), "generated.valid".into())
        } else if src < 22 {
            let (b, e, l) = if r.chance(1, 8) { global_offset_module(&mut r, v1) } else { boundary_module(&mut r, v1) };
            expected = Some(e);
            (b, l.into())
        } else if src < 42 {
            let mut m = wasmref::gen::gen_module(&mut r, &cfg);
            let mut l = "ast.none";
            for _ in 0..1 + r.below(3) {
                l = mutate_ast(&mut r, &mut m);
            }
            (m.encode(), l.into())
        } else if src < 52 {
            let m = wasmref::gen::gen_module(&mut r, &cfg);
            let (b, l) = mutate_leb(&mut r, &m);
            if l == "leb.overflow" {
                expected = Some(false);
            }
            (b, l.into())
        } else if src < 72 {
            let m = wasmref::gen::gen_module(&mut r, &cfg);
            let (b, l) = mutate_sections(&mut r, &m.encode());
            (b, l.into())
        } else if src < 95 {
            let mut b = wasmref::gen::gen_module(&mut r, &cfg).encode();
            let mut l = "byte.none";
            for _ in 0..1 + r.below(3) {
                l = mutate_bytes(&mut r, &mut b);
            }
            (b, l.into())
        } else {
            let mut b = vec![0x00, 0x61, 0x73, 0x6d, 1, 0, 0, 0];
            let n = r.below(60) as usize;
            b.extend(r.bytes(n));
            (b, "random.bytes".into())
        };
        let (rv, sum) = valid::classify(&bytes, v1);
        let (ev, art, st) = engine_verdict(&bytes, v1);
        sh.evaluations += 1;
        let case = || json!({"validation_config": if v1 {"V1"} else {"V0"}, "source": label, "bytes_hex": vmon_core::hex(&bytes), "reference": match &rv { Ok(()) => "valid".to_string(), Err(e) => format!("invalid: {}", e.0) }});
        let sig = |k: &str| format!("{}:{}:{:016x}:{}", k, if v1 { "V1" } else { "V0" }, vmon_core::fnv(&bytes), bytes.len());
        sh.hit(&format!("mut.{}.{}", label, if rv.is_ok() { "valid" } else { "invalid" }));
        if sum.stage >= 2 && label != "generated.valid" {
            sh.nontrivial(vmon_core::fnv(&bytes));
            sh.hit("cases.nontrivial");
        }
        if let Some(e) = expected {
            if e != rv.is_ok() {
                sh.inconclusive.push(format!("harness inconsistency: {} expected {} but the reference validator says {:?} for {}", label, e, rv.as_ref().err().map(|e| &e.0), vmon_core::hex_short(&bytes, 80)));
                continue;
            }
            sh.hit(if e { "expected.valid" } else { "expected.invalid" });
        }
        // (a) allocation: parsing/validation/compilation of n bytes
        let bound = 4096 * bytes.len() + (4 << 20);
        sh.max("max.alloc_peak_per_input_byte_x100", (st.peak as u64 * 100) / (bytes.len().max(1) as u64));
        if st.peak > bound {
            sh.violate(idx, "alloc-bound", sig("alloc"), format!("peak allocation {} bytes (largest single request {}) for an input of {} bytes exceeds 4096*len + 4 MiB", st.peak, st.largest, bytes.len()), case());
        }
        match &ev {
            EngVerdict::Panic(p) => {
                sh.violate(idx, "panic", sig("panic"), format!("parse/validate/compile panicked: {}", p), case());
                continue;
            }
            EngVerdict::ValidButNoCompile(e) => {
                sh.violate(idx, "validated-but-does-not-compile", sig("nocompile"), format!("validate_module accepted the module but compile failed: {}", e), case());
                continue;
            }
            _ => {}
        }
        let accepted = matches!(ev, EngVerdict::Accepted);
        sh.hit(if accepted { "engine.accepted" } else { "engine.rejected" });
        // (b)
        if sum.height_ambiguous {
            sh.hit("skip.height_ambiguous");
        } else if accepted != rv.is_ok() {
            if accepted {
                sh.violate(idx, "accepts-invalid", sig("accinv"), format!("engine accepts, reference validator rejects: {}", rv.as_ref().err().map(|e| e.0.clone()).unwrap_or_default()), case());
            } else if let EngVerdict::Rejected(e) = &ev {
                sh.violate(idx, "rejects-valid", sig("rejval"), format!("reference validator accepts, engine rejects: {}", e), case());
            }
        } else {
            sh.hit(if accepted { "agree.valid" } else { "agree.invalid" });
        }
        // (d)
        if let Some(art) = art {
            let names: Vec<String> = art.export.keys().map(|k| k.as_ref().to_string()).take(3).collect();
            for name in names {
                let fi = art.export[name.as_str()] as usize;
                if fi < art.imports.len() {
                    continue;
                }
                use concordium_wasm::artifact::RunnableCode;
                let params: Vec<V> = art.code[fi - art.imports.len()]
                    .params()
                    .iter()
                    .map(|t| match t {
                        concordium_wasm::types::ValueType::I32 => V::I32(r.i32v()),
                        concordium_wasm::types::ValueType::I64 => V::I64(r.i64v()),
                    })
                    .collect();
                let er = run_engine(&art, &name, &params, 0, 0, if miri { 3000 } else { 30_000 }, false);
                sh.hit("exec.accepted_module");
                #[cfg(concordium_base_verif)]
                {
                    sh.add("hook.bounds_checks", er.hooks.bounds_checks);
                }
                if let Out::Panic(p) = &er.out {
                    let kind = if p.contains("verif-hook") { "bounds-hook" } else { "exec-panic" };
                    sh.violate(idx, kind, sig(&format!("exec-{}", name)), format!("executing export {} with {:?} of an accepted module: {}", name, params, p), case());
                }
            }
        }
        sh.sample(|| case());
    }
}
