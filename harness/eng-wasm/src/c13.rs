//! C13: stored artifacts and interrupted executions.
//!  (1) output(parse(output(A))) == output(A), also for the owned conversion;
//!  (2) owned, zero-copy (parsed from bytes at an odd address) and
//!      converted-owned artifacts agree on result, trap, memory, energy,
//!      memory-growth announcements and host-call log for every execution;
//!  (3) an execution interrupted at any subset of host call sites and resumed
//!      with the host's responses ends like the uninterrupted one;
//!  (4) executing twice gives the same result.
//! D: parse_artifact on untrusted bytes (documented as trusted-only).
use crate::common::*;
use concordium_wasm::{
    artifact::{ArtifactNamedImport, BorrowedArtifact, OwnedArtifact},
    output::Output,
    utils::parse_artifact,
};
use vmon_core::{json, ChildCtx, Shard};

const AMPLE: u64 = 1 << 40;

fn same(a: &EngRun, b: &EngRun) -> Option<String> {
    if a.out != b.out {
        return Some(format!("outcome {} vs {}{}", a.out.brief(), b.out.brief(), a.out.mem_diff(&b.out).map(|d| format!(" [{}]", d)).unwrap_or_default()));
    }
    if a.ticked != b.ticked {
        return Some(format!("energy charged {} vs {}", a.ticked, b.ticked));
    }
    if a.grow != b.grow {
        return Some(format!("memory growth announcements {:?} vs {:?}", a.grow, b.grow));
    }
    if a.log != b.log || a.host_calls != b.host_calls {
        return Some(format!("host call log differs ({} vs {} calls)", a.host_calls, b.host_calls));
    }
    None
}

pub fn run(ctx: &ChildCtx, sh: &mut Shard) {
    let miri = ctx.san == "miri";
    for idx in ctx.indices() {
        ctx.begin_case(idx);
        let mut r = ctx.case_rng(idx);
        let v1 = r.chance(1, 2);
        let mut cfg = pick_cfg(&mut r, v1);
        cfg.force_imports = r.chance(3, 4);
        if miri {
            cfg = wasmref::gen::Cfg { memless: true, max_iters: 2, fn_budget: 30, max_funcs: 3, force_imports: true, ..wasmref::gen::Cfg::small(v1) };
        }
        let m = wasmref::gen::gen_module(&mut r, &cfg);
        let bytes = m.encode();
        sh.hit("modules");
        let arts = match instantiate_all(&bytes, v1) {
            Inst::Ok(a) => a,
            _ => {
                sh.hit("modules.not_instantiated");
                continue;
            }
        };
        let mut nontrivial = false;
        for (wi, (which, art)) in [("plain", &arts.plain), ("m0", &arts.m0), ("m1", &arts.m1)].into_iter().enumerate() {
            if miri && wi as u64 != idx % 3 {
                continue;
            }
            let energy = if which == "plain" { 0 } else { AMPLE };
            // (1) serialisation
            let mut ser = Vec::new();
            if let Err(e) = art.output(&mut ser) {
                sh.inconclusive.push(format!("artifact output failed: {}", e));
                continue;
            }
            // place the bytes at an odd address to exercise unaligned reads
            let mut buf = vec![0u8; ser.len() + 2];
            let off = if (buf.as_ptr() as usize) % 2 == 0 { 1 } else { 2 };
            buf[off..off + ser.len()].copy_from_slice(&ser);
            let slice = &buf[off..off + ser.len()];
            let parsed = vmon_core::catch(|| parse_artifact::<ArtifactNamedImport>(slice));
            let borrowed: BorrowedArtifact<ArtifactNamedImport> = match parsed {
                Ok(Ok(b)) => b,
                Ok(Err(e)) => {
                    sh.violate(idx, "artifact-reparse-failed", format!("reparse:{}:{:016x}", which, vmon_core::fnv(&bytes)), format!("parse_artifact rejected the serialisation of a freshly compiled artifact: {:#}", e), case_json(&m, v1, "-", &[], which));
                    continue;
                }
                Err(p) => {
                    sh.violate(idx, "artifact-reparse-panic", format!("reparsepanic:{}:{:016x}", which, vmon_core::fnv(&bytes)), format!("parse_artifact panicked: {}", p), case_json(&m, v1, "-", &[], which));
                    continue;
                }
            };
            let mut ser2 = Vec::new();
            let _ = borrowed.output(&mut ser2);
            if ser2 != ser {
                sh.violate(idx, "reserialize-differs", format!("reser-borrowed:{}:{:016x}", which, vmon_core::fnv(&bytes)), format!("output(parse(output(A))) differs from output(A): {} vs {} bytes", ser2.len(), ser.len()), case_json(&m, v1, "-", &[], which));
            }
            let owned2: OwnedArtifact<ArtifactNamedImport> = match vmon_core::catch(|| parse_artifact::<ArtifactNamedImport>(slice)) {
                Ok(Ok(b)) => b.into(),
                _ => continue,
            };
            let mut ser3 = Vec::new();
            let _ = owned2.output(&mut ser3);
            if ser3 != ser {
                sh.violate(idx, "reserialize-differs", format!("reser-owned:{}:{:016x}", which, vmon_core::fnv(&bytes)), "output(owned(parse(output(A)))) differs from output(A)".into(), case_json(&m, v1, "-", &[], which));
            }
            sh.hit("artifact.roundtrips");
            sh.evaluations += 1;

            for (name, fidx) in &m.exports {
                let fty = export_type(&m, *fidx).clone();
                for _ in 0..(if miri { 1 } else { 2 }) {
                    let args = gen_args(&mut r, &fty);
                    let limit = if miri { 20_000 } else { 3_000_000 };
                    let e0 = run_engine(art, name, &args, energy, 0, limit, false);
                    if matches!(e0.out, Out::StepLimit) {
                        sh.hit("skip.step_limit");
                        continue;
                    }
                    let case = || case_json(&m, v1, name, &args, which);
                    let sig = |k: &str| signature(&m, v1, name, &args, which, k);
                    if let Out::Panic(p) = &e0.out {
                        sh.violate(idx, "engine-panic", sig("panic"), format!("owned artifact panicked: {}", p), case());
                        continue;
                    }
                    if e0.host_calls >= 2 {
                        nontrivial = true;
                    }
                    // (4)
                    let e0b = run_engine(art, name, &args, energy, 0, limit, false);
                    sh.evaluations += 1;
                    if let Some(d) = same(&e0, &e0b) {
                        sh.violate(idx, "nondeterministic", sig("nondet"), format!("two identical executions differ: {}", d), case());
                    }
                    // (2)
                    let eb = run_engine(&borrowed, name, &args, energy, 0, limit, false);
                    sh.evaluations += 1;
                    if let Some(d) = same(&e0, &eb) {
                        sh.violate(idx, "zero-copy-differs", sig("borrowed"), format!("freshly compiled vs zero-copy artifact parsed from its serialisation: {}", d), case());
                    } else {
                        sh.hit("forms.borrowed_agrees");
                    }
                    if !miri {
                        let ec = run_engine(&owned2, name, &args, energy, 0, limit, false);
                        sh.evaluations += 1;
                        if let Some(d) = same(&e0, &ec) {
                            sh.violate(idx, "reloaded-owned-differs", sig("owned2"), format!("freshly compiled vs owned artifact converted from the parsed one: {}", d), case());
                        } else {
                            sh.hit("forms.reloaded_owned_agrees");
                        }
                    }
                    // (3) interrupts
                    if e0.host_calls == 0 {
                        sh.hit("executions.without_host_calls");
                        continue;
                    }
                    sh.hit("executions.with_host_calls");
                    let mut masks: Vec<u64> = vec![u64::MAX];
                    for k in 0..e0.host_calls.min(if miri { 1 } else { 5 }) {
                        masks.push(1 << k);
                    }
                    for _ in 0..(if miri { 0 } else { 3 }) {
                        masks.push(r.next());
                    }
                    for (mi, mask) in masks.iter().enumerate() {
                        let use_borrowed = mi % 2 == 1;
                        let ei = if use_borrowed { run_engine(&borrowed, name, &args, energy, *mask, limit, false) } else { run_engine(art, name, &args, energy, *mask, limit, false) };
                        sh.evaluations += 1;
                        sh.add("interrupts.total", ei.interrupts as u64);
                        sh.max("max.interrupt_depth", ei.max_interrupt_depth as u64);
                        if ei.max_interrupt_depth >= 2 {
                            sh.hit("interrupts.nested_depth_ge_2");
                        }
                        if ei.interrupts >= 2 {
                            sh.hit("interrupts.runs_with_two_or_more");
                        }
                        if let Some(d) = same(&e0, &ei) {
                            sh.violate(idx, "interrupt-resume-differs", sig(&format!("int{:x}{}", mask, if use_borrowed { "b" } else { "o" })), format!("uninterrupted vs interrupted (mask {:#x}, {} interrupts, {} artifact) and resumed: {}", mask, ei.interrupts, if use_borrowed { "zero-copy" } else { "owned" }, d), case());
                        } else {
                            sh.hit("interrupts.agree");
                        }
                    }
                }
            }
        }
        if nontrivial {
            sh.nontrivial(vmon_core::fnv(&bytes));
        }
        sh.sample(|| json!({"validation_config": if v1 {"V1"} else {"V0"}, "module_hex": vmon_core::hex_short(&bytes, 200), "module_text": wasmref::show::show_mod(&m).chars().take(1500).collect::<String>()}));
    }
}
