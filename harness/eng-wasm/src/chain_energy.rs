//! C02, chain side of the energy interface: `InterpreterEnergy` is the host
//! object that the metered artifact charges (`tick_energy`, and
//! `charge_memory_alloc` for every memory.grow announcement and the initial
//! memory). Model: plain u64 arithmetic; a charge larger than what is left
//! fails with out-of-energy and leaves 0; n pages cost n * 100 (documented
//! MEMORY_COST_FACTOR), computed without wrap-around.
use concordium_smart_contract_engine::{constants::MEMORY_COST_FACTOR, InterpreterEnergy};
use vmon_core::{json, Rng, Shard};

pub fn probe(r: &mut Rng, sh: &mut Shard, idx: u64) {
    for _ in 0..8 {
        let pages: u32 = match r.below(10) {
            0 => 0,
            1 => 1,
            2 => 512,
            3 => 42_949_672,
            4 => 42_949_673,
            5 => 1 << 31,
            6 => u32::MAX,
            7 => r.below(100_000) as u32,
            _ => r.next() as u32,
        };
        let want = pages as u64 * MEMORY_COST_FACTOR as u64;
        let budget: u64 = match r.below(6) {
            0 => want,
            1 => want.saturating_sub(1),
            2 => want.saturating_add(1),
            3 => 1_000_000,
            4 => u64::MAX,
            _ => r.next(),
        };
        let mut e = InterpreterEnergy::new(budget);
        let res = vmon_core::catch(|| e.charge_memory_alloc(pages).is_ok());
        sh.evaluations += 1;
        sh.hit("chain_energy.memory_alloc");
        let (exp_ok, exp_left) = if budget >= want { (true, budget - want) } else { (false, 0) };
        match res {
            Err(p) => sh.violate(idx, "chain-energy-panic", format!("c02:chain-energy:panic:{}:{}", pages, budget), format!("charge_memory_alloc({}) with {} energy panicked: {}", pages, budget, p), json!({"pages": pages, "budget": budget})),
            Ok(ok) => {
                if ok != exp_ok || e.energy != exp_left {
                    sh.violate(
                        idx,
                        "chain-energy-memory-alloc",
                        format!("c02:chain-energy:alloc:{}:{}", pages, budget),
                        format!("charge_memory_alloc({} pages) with {} energy: returned {} and left {}; {} pages cost {} so it must {} and leave {}", pages, budget, if ok { "Ok" } else { "out-of-energy" }, e.energy, pages, want, if exp_ok { "succeed" } else { "fail" }, exp_left),
                        json!({"pages": pages, "budget": budget}),
                    );
                }
            }
        }
        // tick_energy
        let amount = match r.below(4) {
            0 => budget,
            1 => budget.wrapping_add(1),
            2 => r.next(),
            _ => r.below(1000),
        };
        let mut e = InterpreterEnergy::new(budget);
        let ok = e.tick_energy(amount).is_ok();
        sh.evaluations += 1;
        sh.hit("chain_energy.tick");
        let (exp_ok, exp_left) = if budget >= amount { (true, budget - amount) } else { (false, 0) };
        if ok != exp_ok || e.energy != exp_left {
            sh.violate(idx, "chain-energy-tick", format!("c02:chain-energy:tick:{}:{}", amount, budget), format!("tick_energy({}) with {} energy: returned {} and left {}", amount, budget, ok, e.energy), json!({"amount": amount, "budget": budget}));
        }
    }
}
