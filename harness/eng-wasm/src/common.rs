//! Shared pieces of the Wasm engine monitors: the two host implementations
//! (reference side and engine side, written from one small specification),
//! running an artifact under the hooks, outcome comparison.
use concordium_wasm::{
    artifact::{Artifact, ArtifactNamedImport, CompiledFunction, RunnableCode},
    machine::{ExecutionOutcome, Host, RunResult, RuntimeStack, Value},
    types::{FunctionType, Name},
    utils::{instantiate, instantiate_with_metering},
    validate::{ValidateImportExport, ValidationConfig},
    CostConfigurationV0, CostConfigurationV1,
};
use vmon_core::{json, Shard, Value as J};
use wasmref::{ast::*, refint::*};

pub struct AllowAll;
impl ValidateImportExport for AllowAll {
    fn validate_import_function(&self, _d: bool, _m: &Name, _i: &Name, _t: &FunctionType) -> bool { true }

    fn validate_export_function(&self, _i: &Name, _t: &FunctionType) -> bool { true }
}

// ----------------------------------------------------------------------------
// Host specification (both implementations below follow it):
//   env.h0 : i32 -> i32   writes x (LE) to memory[0..4] if memory has >= 4 bytes; returns x*31+7
//   env.h1 : i64 i32 ->   traps if b % 7 == 3; otherwise if memory has >= 2000 bytes writes a (LE)
//                         at 8 + b % 1000
// ----------------------------------------------------------------------------
pub fn h0(x: i32) -> i32 { x.wrapping_mul(31).wrapping_add(7) }

#[derive(Default)]
pub struct RHost {
    pub log: u64,
}
impl RefHost for RHost {
    fn call(&mut self, imp: &Import, args: &[V], mem: &mut Vec<u8>) -> Result<Option<V>, Trap> {
        match imp.name.as_str() {
            "h0" => {
                let x = args[0].i32();
                self.log = vmon_core::mix(&[self.log, 0, x as u32 as u64]);
                if mem.len() >= 4 {
                    mem[0..4].copy_from_slice(&x.to_le_bytes());
                }
                Ok(Some(V::I32(h0(x))))
            }
            "h1" => {
                let a = args[0].i64();
                let b = args[1].i32() as u32 as usize;
                self.log = vmon_core::mix(&[self.log, 1, a as u64, b as u64]);
                if b % 7 == 3 {
                    return Err(Trap::Host("h1 refuses".into()));
                }
                if mem.len() >= 2000 {
                    let p = 8 + b % 1000;
                    mem[p..p + 8].copy_from_slice(&a.to_le_bytes());
                }
                Ok(None)
            }
            _ => panic!("harness: unknown import"),
        }
    }
}

/// What the interrupting host hands back to the harness.
#[derive(Debug, Clone, Copy)]
pub struct Pending {
    /// value to push when resuming, if the import has a result
    pub push: Option<i32>,
}

pub struct EHost {
    pub energy: u64,
    pub ticked: u64,
    pub out_of_energy: bool,
    /// host callbacks of any kind after out-of-energy was signalled
    pub calls_after_ooe: u64,
    pub depth: u32,
    pub max_depth_seen: u32,
    /// (requested pages, memory size in pages when announced)
    pub grow: Vec<(u32, u32)>,
    pub log: u64,
    pub host_calls: u64,
    /// bit k set: the k-th (mod 64) import call interrupts
    pub interrupt_mask: u64,
    pub interrupts: u32,
    /// deepest call depth (track_call nesting) at which an interrupt happened
    pub max_interrupt_depth: u32,
}

impl EHost {
    pub fn new(energy: u64, interrupt_mask: u64) -> Self {
        EHost { energy, ticked: 0, out_of_energy: false, calls_after_ooe: 0, depth: 0, max_depth_seen: 0, grow: vec![], log: 0, host_calls: 0, interrupt_mask, interrupts: 0, max_interrupt_depth: 0 }
    }
}

pub const OOE_MSG: &str = "harness: out of energy";

impl Host<ArtifactNamedImport> for EHost {
    type Interrupt = Pending;

    fn tick_initial_memory(&mut self, _n: u32) -> RunResult<()> { Ok(()) }

    fn call(&mut self, f: &ArtifactNamedImport, memory: &mut [u8], stack: &mut RuntimeStack) -> RunResult<Option<Pending>> {
        if self.out_of_energy {
            self.calls_after_ooe += 1;
        }
        if f.matches("concordium_metering", "account_memory") {
            let n = unsafe { stack.peek_u32() };
            self.grow.push((n, (memory.len() / 65536) as u32));
            return Ok(None);
        }
        let k = self.host_calls;
        self.host_calls += 1;
        let interrupt = self.interrupt_mask >> (k % 64) & 1 == 1;
        // A real host is only ever linked against imports whose signatures were checked at
        // validation time. With AllowAll (C09) a mutated module can import h0/h1 at another type;
        // popping this host's fixed argument list would then underflow the stack inside the
        // *harness's* host (seen as "Stack not empty" in the thorough tier): refuse instead.
        {
            use concordium_wasm::{artifact::TryFromImport, types::ValueType as VT};
            let t = f.ty();
            let ok = if f.matches("env", "h0") {
                t.parameters == [VT::I32] && t.result == Some(VT::I32)
            } else if f.matches("env", "h1") {
                t.parameters == [VT::I64, VT::I32] && t.result.is_none()
            } else {
                true
            };
            if !ok {
                anyhow::bail!("harness: import declared at an unsupported type")
            }
        }
        if f.matches("env", "h0") {
            let x = unsafe { stack.pop_u32() } as i32;
            self.log = vmon_core::mix(&[self.log, 0, x as u32 as u64]);
            if memory.len() >= 4 {
                memory[0..4].copy_from_slice(&x.to_le_bytes());
            }
            if interrupt {
                self.interrupts += 1;
                self.max_interrupt_depth = self.max_interrupt_depth.max(self.depth);
                return Ok(Some(Pending { push: Some(h0(x)) }));
            }
            stack.push_value(h0(x));
            return Ok(None);
        }
        if f.matches("env", "h1") {
            let b = unsafe { stack.pop_u32() } as usize;
            let a = unsafe { stack.pop_u64() } as i64;
            self.log = vmon_core::mix(&[self.log, 1, a as u64, b as u64]);
            if b % 7 == 3 {
                anyhow::bail!("h1 refuses");
            }
            if memory.len() >= 2000 {
                let p = 8 + b % 1000;
                memory[p..p + 8].copy_from_slice(&a.to_le_bytes());
            }
            if interrupt {
                self.interrupts += 1;
                self.max_interrupt_depth = self.max_interrupt_depth.max(self.depth);
                return Ok(Some(Pending { push: None }));
            }
            return Ok(None);
        }
        anyhow::bail!("harness: unknown import")
    }

    fn tick_energy(&mut self, e: u64) -> RunResult<()> {
        if self.out_of_energy {
            self.calls_after_ooe += 1;
        }
        self.ticked += e;
        if self.energy >= e {
            self.energy -= e;
            Ok(())
        } else {
            self.energy = 0;
            self.out_of_energy = true;
            anyhow::bail!(OOE_MSG)
        }
    }

    fn track_call(&mut self) -> RunResult<()> {
        if self.out_of_energy {
            self.calls_after_ooe += 1;
        }
        self.depth += 1;
        if self.depth > self.max_depth_seen {
            self.max_depth_seen = self.depth;
        }
        if self.depth > 5000 {
            anyhow::bail!("harness: call depth")
        }
        Ok(())
    }

    fn track_return(&mut self) { self.depth = self.depth.saturating_sub(1); }
}

#[derive(Debug, Clone, PartialEq, Eq)]
pub enum Out {
    Ok(Option<V>, Vec<u8>),
    Trap,
    /// not judged (reference fuel / depth)
    Skip(String),
    OutOfEnergy,
    Panic(String),
    StepLimit,
}

impl Out {
    pub fn brief(&self) -> String {
        match self {
            Out::Ok(v, m) => format!("Ok({:?}, mem {} bytes hash {:016x})", v, m.len(), vmon_core::fast_hash(m)),
            o => format!("{:?}", o),
        }
    }

    /// first differing memory offset between two successful outcomes
    pub fn mem_diff(&self, other: &Out) -> Option<String> {
        if let (Out::Ok(_, a), Out::Ok(_, b)) = (self, other) {
            if a.len() != b.len() {
                return Some(format!("memory length {} vs {}", a.len(), b.len()));
            }
            if let Some(i) = (0..a.len()).find(|i| a[*i] != b[*i]) {
                return Some(format!("first differing byte at offset {}: {:#x} vs {:#x}", i, a[i], b[i]));
            }
        }
        None
    }
}

pub struct RefRun {
    pub out: Out,
    pub energy: u64,
    pub grow: Vec<(u32, u32)>,
    pub steps: u64,
    pub ops: [u64; 256],
    pub br: [u64; 12],
    pub host_calls: u64,
    pub log: u64,
}

pub const REF_FUEL: u64 = 200_000;

pub fn run_ref(m: &Module, fidx: u32, args: &[V], cost: Cost) -> RefRun { run_ref_fuel(m, fidx, args, cost, REF_FUEL) }

/// The reference interpreter recurses per Wasm call and per nested block (up to 900 calls deep).
/// Under ASan its frames are several times larger and exhausted the 8 MiB main stack (a harness
/// fault reported as an ASan stack-overflow in the thorough tier), so it runs on its own thread
/// with a generous stack; the code under test keeps the ordinary stack.
pub fn run_ref_fuel(m: &Module, fidx: u32, args: &[V], cost: Cost, fuel: u64) -> RefRun {
    std::thread::scope(|s| {
        std::thread::Builder::new()
            .stack_size(256 << 20)
            .spawn_scoped(s, || run_ref_here(m, fidx, args, cost, fuel))
            .expect("spawn reference thread")
            .join()
            .unwrap_or_else(|_| RefRun { out: Out::Skip("refpanic: reference thread died".into()), energy: 0, grow: vec![], steps: 0, ops: [0; 256], br: [0; 12], host_calls: 0, log: 0 })
    })
}

fn run_ref_here(m: &Module, fidx: u32, args: &[V], cost: Cost, fuel: u64) -> RefRun {
    let r = vmon_core::catch(|| {
        let mut mach = Machine::new(m, RHost::default(), fuel, cost);
        let r = mach.invoke(fidx, args);
        let out = match r {
            Ok(v) => Out::Ok(v, std::mem::take(&mut mach.mem)),
            Err(Trap::Fuel) => Out::Skip("fuel".into()),
            Err(Trap::CallDepth) => Out::Skip("depth".into()),
            Err(_) => Out::Trap,
        };
        RefRun {
            out,
            energy: mach.energy,
            grow: mach.grow_requests.iter().copied().zip(mach.grow_before.iter().copied()).collect(),
            steps: mach.steps,
            ops: mach.ops,
            br: mach.br,
            host_calls: mach.host_calls,
            log: mach.host.log,
        }
    });
    match r {
        Ok(x) => x,
        Err(p) => RefRun { out: Out::Skip(format!("refpanic: {}", p)), energy: 0, grow: vec![], steps: 0, ops: [0; 256], br: [0; 12], host_calls: 0, log: 0 },
    }
}

pub struct EngRun {
    pub out: Out,
    pub ticked: u64,
    pub remaining: u64,
    pub grow: Vec<(u32, u32)>,
    pub log: u64,
    pub host_calls: u64,
    pub calls_after_ooe: u64,
    pub interrupts: u32,
    pub max_interrupt_depth: u32,
    #[cfg(concordium_base_verif)]
    pub hooks: concordium_wasm::verif_hooks::State,
}

pub fn to_values(args: &[V]) -> Vec<Value> {
    args.iter()
        .map(|v| match v {
            V::I32(x) => Value::I32(*x),
            V::I64(x) => Value::I64(*x),
        })
        .collect()
}

/// Run an export on an artifact; interrupts (if any) are resumed until the
/// execution finishes.
pub fn run_engine<R: RunnableCode>(art: &Artifact<ArtifactNamedImport, R>, name: &str, args: &[V], energy: u64, interrupt_mask: u64, step_limit: u64, track_window: bool) -> EngRun {
    let mut host = EHost::new(energy, interrupt_mask);
    let eargs = to_values(args);
    #[cfg(concordium_base_verif)]
    concordium_wasm::verif_hooks::reset(step_limit, track_window);
    let _ = (step_limit, track_window);
    let r = vmon_core::catch(|| {
        let mut r = art.run(&mut host, name, &eargs);
        loop {
            match r {
                Ok(ExecutionOutcome::Interrupted { reason, mut config }) => {
                    if let Some(v) = reason.push {
                        config.push_value(v);
                    }
                    r = art.run_config(&mut host, config);
                }
                other => break other,
            }
        }
    });
    #[cfg(concordium_base_verif)]
    let hooks = concordium_wasm::verif_hooks::take();
    let out = match r {
        Err(p) => Out::Panic(p),
        Ok(Ok(ExecutionOutcome::Success { result, memory })) => Out::Ok(
            result.map(|v| match v {
                Value::I32(x) => V::I32(x),
                Value::I64(x) => V::I64(x),
            }),
            memory,
        ),
        Ok(Ok(ExecutionOutcome::Interrupted { .. })) => unreachable!(),
        Ok(Err(e)) => {
            let s = format!("{}", e);
            if s == OOE_MSG {
                Out::OutOfEnergy
            } else if s.starts_with("verif-hook: step limit") {
                Out::StepLimit
            } else {
                Out::Trap
            }
        }
    };
    EngRun {
        out,
        ticked: host.ticked,
        remaining: host.energy,
        grow: host.grow,
        log: host.log,
        host_calls: host.host_calls,
        calls_after_ooe: host.calls_after_ooe,
        interrupts: host.interrupts,
        max_interrupt_depth: host.max_interrupt_depth,
        #[cfg(concordium_base_verif)]
        hooks,
    }
}

pub type Art = Artifact<ArtifactNamedImport, CompiledFunction>;

pub struct Arts {
    pub plain: Art,
    pub m0: Art,
    pub m1: Art,
}

pub enum Inst {
    Ok(Box<Arts>),
    Rejected(String),
    Panic(String),
}

pub fn vcfg_of(v1: bool) -> ValidationConfig {
    if v1 {
        ValidationConfig::V1
    } else {
        ValidationConfig::V0
    }
}

pub fn instantiate_all(bytes: &[u8], v1: bool) -> Inst {
    let vcfg = vcfg_of(v1);
    let r = vmon_core::catch(|| -> anyhow::Result<Arts> {
        let plain = instantiate::<ArtifactNamedImport, _>(vcfg, &AllowAll, bytes)?.artifact;
        let m0 = instantiate_with_metering::<ArtifactNamedImport>(vcfg, CostConfigurationV0, &AllowAll, bytes)?.artifact;
        let m1 = instantiate_with_metering::<ArtifactNamedImport>(vcfg, CostConfigurationV1, &AllowAll, bytes)?.artifact;
        Ok(Arts { plain, m0, m1 })
    });
    match r {
        Err(p) => Inst::Panic(p),
        Ok(Err(e)) => Inst::Rejected(format!("{:#}", e)),
        Ok(Ok(a)) => Inst::Ok(Box::new(a)),
    }
}

pub fn gen_args(r: &mut vmon_core::Rng, fty: &FuncTy) -> Vec<V> {
    fty.params
        .iter()
        .map(|t| match t {
            Ty::I32 => V::I32(r.i32v()),
            Ty::I64 => V::I64(r.i64v()),
        })
        .collect()
}

pub fn export_type<'a>(m: &'a Module, fidx: u32) -> &'a FuncTy {
    let ni = m.imports.len() as u32;
    &m.types[m.funcs[(fidx - ni) as usize].ty as usize]
}

pub fn case_json(m: &Module, v1: bool, export: &str, args: &[V], which: &str) -> J {
    let text = wasmref::show::show_mod(m);
    let text = if text.len() > 20_000 { format!("{}... ({} characters)", &text[..20_000], text.len()) } else { text };
    json!({
        "validation_config": if v1 { "V1" } else { "V0" },
        "artifact": which,
        "export": export,
        "args": format!("{:?}", args),
        "module_hex": vmon_core::hex(&m.encode()),
        "module_text": text,
    })
}

pub fn signature(m: &Module, v1: bool, export: &str, args: &[V], which: &str, kind: &str) -> String {
    format!("{}:{}:{}:{}:{:?}:{:016x}", kind, if v1 { "V1" } else { "V0" }, which, export, args, vmon_core::fnv(&m.encode()))
}

pub fn record_ref_cov(sh: &mut Shard, r: &RefRun) {
    for (i, n) in r.ops.iter().enumerate() {
        if *n > 0 {
            sh.add(&format!("ref.op.{:#04x}", i), *n);
        }
    }
    for (i, n) in r.br.iter().enumerate() {
        if *n > 0 {
            sh.add(&format!("ref.{}", BR_NAMES[i]), *n);
        }
    }
}

#[cfg(concordium_base_verif)]
pub fn record_hook_cov(sh: &mut Shard, h: &concordium_wasm::verif_hooks::State) {
    for (i, n) in h.opcodes.iter().enumerate() {
        if *n > 0 {
            sh.add(&format!("iop.{}", i), *n);
        }
    }
    sh.add("hook.steps", h.steps);
    sh.add("hook.bounds_checks", h.bounds_checks);
    sh.max("max.hook.call_depth", h.max_depth as u64);
}

/// Pick generator configuration by size class.
pub fn pick_cfg(r: &mut vmon_core::Rng, v1: bool) -> wasmref::gen::Cfg {
    match r.below(10) {
        0..=5 => wasmref::gen::Cfg::small(v1),
        6..=8 => wasmref::gen::Cfg::medium(v1),
        _ => wasmref::gen::Cfg::large(v1),
    }
}
