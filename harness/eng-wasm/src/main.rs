//! Wasm engine monitors: C01 (conformance), C02 (metering), C09 (validation
//! totality/soundness), C13 (artifact persistence, interrupt/resume).
mod allowlist;
mod c01;
mod c02;
mod c09;
mod c13;
mod chain_energy;
mod common;

use vmon_core::{ChildCtx, Engine, Plan, SanTier, Shard, Tier};

#[global_allocator]
static ALLOC: vmon_core::alloc::Counting = vmon_core::alloc::Counting;

struct WasmEngine;

const ASSUME: &[&str] = &[
    "reference interpreter and cost schedule transcription (wasmref) are correct; they share no code with /repo",
    "shim crates for num_enum/slab/secp256k1/ed25519-zebra stand in for the real crates (none is on the wasm-transform execution path except num_enum's TryFromPrimitive derive)",
    "generated modules use the integer subset + sign extension, <= 6 functions, imports env.h0/env.h1 only",
];

impl Engine for WasmEngine {
    fn name(&self) -> &'static str { "eng-wasm" }

    fn props(&self) -> Vec<&'static str> { vec!["C01", "C02", "C09", "C13"] }

    fn plan(&self, prop: &str, tier: Tier) -> Plan {
        let quick = tier == Tier::Quick;
        let mut p = Plan { assumptions: ASSUME.iter().map(|s| s.to_string()).collect(), ..Plan::default() };
        match prop {
            "C01" => {
                p.cases = if quick { 800 } else { 60_000 };
                p.timeout_s = if quick { 1800 } else { 4 * 3600 };
                p.budget_s = if quick { 300 } else { 1500 };
                p.crash_is_violation = true;
                p.rule = "case = generated valid module (stack-directed generator, 3 size classes) run on every export with 3 argument vectors under plain/metered-V0/metered-V1 artifacts; evaluations = engine executions compared with the reference interpreter; distinct_nontrivial = distinct modules (hash of bytes) with an execution of >= 30 reference steps and >= 1 taken branch".into();
                p.floors = vec![("executions.nontrivial".into(), 100), ("ref.trap".into(), 10), ("ref.success".into(), 100), ("ref.br_if.untaken.arity1".into(), 5), ("ref.br_if.taken.arity1".into(), 5), ("ref.br_table.arity1".into(), 1), ("ref.loop.backedge".into(), 20)];
                p.san = vec![
                    SanTier { name: "asan", shards: 16, cases: if quick { 40 } else { 3000 }, timeout_s: if quick { 1200 } else { 2 * 3600 }, budget_s: if quick { 60 } else { 600 } },
                    SanTier { name: "miri", shards: 16, cases: if quick { 40 } else { 2000 }, timeout_s: if quick { 1200 } else { 2 * 3600 }, budget_s: if quick { 45 } else { 600 } },
                ];
            }
            "C02" => {
                p.cases = if quick { 300 } else { 40_000 };
                p.timeout_s = if quick { 1800 } else { 4 * 3600 };
                p.budget_s = if quick { 300 } else { 1500 };
                p.hang_is_violation = true;
                p.rule = "case = generated valid module (40% loop-heavy profile) run on every export with 2 argument vectors under metered-V0 and metered-V1 artifacts; evaluations = metered executions judged against the transcribed cost schedule (plus one per budget-sweep run); distinct_nontrivial = distinct modules with an execution of >= 3 positive charges and >= 1 loop back-edge or host call".into();
                p.floors = vec![("energy.exact".into(), 1000), ("energy.trap_at_least".into(), 50), ("grow.events".into(), 10), ("budget.ooe_observed".into(), 200), ("budget.exact_remaining".into(), 200), ("ticks.positive".into(), 10_000), ("modules.nontrivial".into(), 50), ("chain_energy.memory_alloc".into(), 100), ("modules.long_segment".into(), 16)];
            }
            "C09" => {
                p.cases = if quick { 20_000 } else { 2_000_000 };
                p.timeout_s = if quick { 1800 } else { 4 * 3600 };
                p.budget_s = if quick { 300 } else { 1500 };
                p.crash_is_violation = true;
                p.hang_is_violation = true;
                p.rule = "case = byte string: generated valid module, boundary module on/over a documented limit, or a generated module mutated at instruction, LEB128, section or byte level, or random bytes; evaluations = byte strings classified by both the engine (parse_skeleton+validate_module+compile) and the independent reference validator; distinct_nontrivial = distinct mutated byte strings whose classification got past the section framing (reference stage >= 2)".into();
                p.floors = vec![("agree.valid".into(), 2000), ("agree.invalid".into(), 5000), ("expected.valid".into(), 500), ("expected.invalid".into(), 300), ("exec.accepted_module".into(), 2000), ("cases.nontrivial".into(), 5000), ("allowlist.expect_accept".into(), 200), ("allowlist.expect_reject".into(), 500)];
                p.san = vec![
                    SanTier { name: "asan", shards: 16, cases: if quick { 3000 } else { 100_000 }, timeout_s: if quick { 1200 } else { 2 * 3600 }, budget_s: if quick { 40 } else { 600 } },
                    SanTier { name: "miri", shards: 16, cases: if quick { 60 } else { 3000 }, timeout_s: if quick { 1200 } else { 2 * 3600 }, budget_s: if quick { 45 } else { 600 } },
                ];
            }
            "C13" => {
                p.cases = if quick { 200 } else { 30_000 };
                p.timeout_s = if quick { 1800 } else { 4 * 3600 };
                p.budget_s = if quick { 300 } else { 1500 };
                p.crash_is_violation = true;
                p.rule = "case = generated valid module (imports forced on in 3/4) x {plain, metered-V0, metered-V1} artifact; evaluations = executions compared with the uninterrupted run of the freshly compiled artifact (zero-copy form parsed at an odd address, reloaded owned form, interrupt masks: all, each of the first 5 call sites, 3 random) plus one per serialisation round-trip; distinct_nontrivial = distinct modules with an execution making >= 2 host calls".into();
                p.floors = vec![("artifact.roundtrips".into(), 500), ("forms.borrowed_agrees".into(), 1000), ("interrupts.agree".into(), 1000), ("interrupts.total".into(), 2000), ("interrupts.nested_depth_ge_2".into(), 50), ("interrupts.runs_with_two_or_more".into(), 100)];
                p.san = vec![
                    SanTier { name: "asan", shards: 16, cases: if quick { 20 } else { 1500 }, timeout_s: if quick { 1200 } else { 2 * 3600 }, budget_s: if quick { 45 } else { 600 } },
                    SanTier { name: "miri", shards: 16, cases: if quick { 40 } else { 2000 }, timeout_s: if quick { 1200 } else { 2 * 3600 }, budget_s: if quick { 45 } else { 600 } },
                ];
            }
            _ => {}
        }
        p
    }

    fn run_child(&self, ctx: &ChildCtx, out: &mut Shard) {
        match ctx.prop.as_str() {
            "C01" => c01::run(ctx, out),
            "C02" => c02::run(ctx, out),
            "C09" => c09::run(ctx, out),
            "C13" => c13::run(ctx, out),
            _ => out.inconclusive.push("unknown property".into()),
        }
    }
}

fn main() { vmon_core::main_engine(&WasmEngine) }
