//! Counting global allocator. Engines that judge allocation bounds declare
//! `#[global_allocator] static A: vmon_core::alloc::Counting = Counting;`
//! and bracket the call under test with `measure`.
//!
//! Counters are per thread (const-initialised thread locals, so the allocator
//! itself never allocates). A request larger than `HARD_LIMIT` while a
//! measurement is armed is refused (null), which makes the runtime abort with
//! "memory allocation of N bytes failed"; the orchestrator turns that into a
//! violation of the allocation clause with the case from the progress file.
use std::alloc::{GlobalAlloc, Layout, System};
use std::cell::Cell;

pub struct Counting;

thread_local! {
    static ARMED: Cell<bool> = const { Cell::new(false) };
    static LIVE: Cell<usize> = const { Cell::new(0) };
    static PEAK: Cell<usize> = const { Cell::new(0) };
    static LARGEST: Cell<usize> = const { Cell::new(0) };
    static TOTAL: Cell<usize> = const { Cell::new(0) };
    static COUNT: Cell<usize> = const { Cell::new(0) };
}

/// Requests above this are refused while armed (16 GiB).
pub const HARD_LIMIT: usize = 16 << 30;

#[inline]
fn on_alloc(size: usize) {
    let _ = ARMED.try_with(|a| {
        if a.get() {
            LIVE.with(|l| {
                let v = l.get().saturating_add(size);
                l.set(v);
                PEAK.with(|p| {
                    if v > p.get() {
                        p.set(v)
                    }
                });
            });
            LARGEST.with(|p| {
                if size > p.get() {
                    p.set(size)
                }
            });
            TOTAL.with(|t| t.set(t.get().saturating_add(size)));
            COUNT.with(|t| t.set(t.get() + 1));
        }
    });
}

#[inline]
fn on_dealloc(size: usize) {
    let _ = ARMED.try_with(|a| {
        if a.get() {
            LIVE.with(|l| l.set(l.get().saturating_sub(size)));
        }
    });
}

unsafe impl GlobalAlloc for Counting {
    unsafe fn alloc(&self, layout: Layout) -> *mut u8 {
        let armed = ARMED.try_with(|a| a.get()).unwrap_or(false);
        if armed && layout.size() > HARD_LIMIT {
            on_alloc(layout.size());
            return std::ptr::null_mut();
        }
        on_alloc(layout.size());
        System.alloc(layout)
    }

    unsafe fn dealloc(&self, ptr: *mut u8, layout: Layout) {
        on_dealloc(layout.size());
        System.dealloc(ptr, layout)
    }

    unsafe fn alloc_zeroed(&self, layout: Layout) -> *mut u8 {
        let armed = ARMED.try_with(|a| a.get()).unwrap_or(false);
        if armed && layout.size() > HARD_LIMIT {
            on_alloc(layout.size());
            return std::ptr::null_mut();
        }
        on_alloc(layout.size());
        System.alloc_zeroed(layout)
    }

    unsafe fn realloc(&self, ptr: *mut u8, layout: Layout, new_size: usize) -> *mut u8 {
        let armed = ARMED.try_with(|a| a.get()).unwrap_or(false);
        if armed && new_size > HARD_LIMIT {
            on_alloc(new_size);
            return std::ptr::null_mut();
        }
        on_dealloc(layout.size());
        on_alloc(new_size);
        System.realloc(ptr, layout, new_size)
    }
}

#[derive(Clone, Copy, Debug, Default)]
pub struct AllocStats {
    /// peak of (bytes allocated - bytes freed) since arming
    pub peak: usize,
    /// largest single request
    pub largest: usize,
    /// sum of all requests
    pub total: usize,
    pub count: usize,
}

/// Run `f` with the counters armed and return what it allocated.
pub fn measure<T>(f: impl FnOnce() -> T) -> (T, AllocStats) {
    LIVE.with(|l| l.set(0));
    PEAK.with(|l| l.set(0));
    LARGEST.with(|l| l.set(0));
    TOTAL.with(|l| l.set(0));
    COUNT.with(|l| l.set(0));
    ARMED.with(|a| a.set(true));
    struct Disarm;
    impl Drop for Disarm {
        fn drop(&mut self) { ARMED.with(|a| a.set(false)); }
    }
    let d = Disarm;
    let r = f();
    drop(d);
    let st = AllocStats {
        peak: PEAK.with(|l| l.get()),
        largest: LARGEST.with(|l| l.get()),
        total: TOTAL.with(|l| l.get()),
        count: COUNT.with(|l| l.get()),
    };
    (r, st)
}
