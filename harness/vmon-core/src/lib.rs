//! Shared machinery of the runtime monitors: deterministic PRNG, case hashing,
//! shard reports, the parent/child orchestrator (sharded subprocesses with a
//! wall-clock watchdog whose firing is *inconclusive*), known-findings
//! matching, replay files, evidence writer, counting allocator, panic capture.
pub mod alloc;
pub mod orch;
pub mod rng;

pub use orch::{main_engine, ChildCtx, Engine, Plan, SanTier, Shard, Tier, Violation};
pub use rng::Rng;
pub use serde_json::{json, Value};

/// FNV-1a, used for case identity (not for security).
pub fn fnv(b: &[u8]) -> u64 {
    let mut h = 0xcbf29ce484222325u64;
    for x in b {
        h ^= *x as u64;
        h = h.wrapping_mul(0x100000001b3);
    }
    h
}

pub fn mix(xs: &[u64]) -> u64 {
    let mut h = 0x9E3779B97F4A7C15u64;
    for x in xs {
        h ^= *x;
        h = h.wrapping_add(0x9E3779B97F4A7C15);
        let mut z = h;
        z = (z ^ (z >> 30)).wrapping_mul(0xBF58476D1CE4E5B9);
        z = (z ^ (z >> 27)).wrapping_mul(0x94D049BB133111EB);
        h = z ^ (z >> 31);
    }
    h
}

pub fn hex(b: &[u8]) -> String {
    let mut s = String::with_capacity(b.len() * 2);
    for x in b {
        s.push_str(&format!("{:02x}", x));
    }
    s
}

pub fn unhex(s: &str) -> Option<Vec<u8>> {
    if s.len() % 2 != 0 {
        return None;
    }
    (0..s.len() / 2).map(|i| u8::from_str_radix(&s[2 * i..2 * i + 2], 16).ok()).collect()
}

/// Shorten a hex string for display in evidence samples.
pub fn hex_short(b: &[u8], max: usize) -> String {
    if b.len() <= max {
        hex(b)
    } else {
        format!("{}..({} bytes)", hex(&b[..max]), b.len())
    }
}

use std::cell::RefCell;
thread_local! {
    static LAST_PANIC: RefCell<Option<String>> = const { RefCell::new(None) };
    static CATCH_DEPTH: std::cell::Cell<u32> = const { std::cell::Cell::new(0) };
}

/// Install a silent panic hook that records message and location per thread.
pub fn install_panic_capture() {
    std::panic::set_hook(Box::new(|info| {
        let msg = if let Some(s) = info.payload().downcast_ref::<&str>() {
            s.to_string()
        } else if let Some(s) = info.payload().downcast_ref::<String>() {
            s.clone()
        } else {
            "<non-string panic>".to_string()
        };
        let loc = info.location().map(|l| format!("{}:{}", l.file(), l.line())).unwrap_or_default();
        // a panic that nobody is going to catch ends the child: leave a trace for the parent
        if CATCH_DEPTH.with(|d| d.get()) == 0 {
            eprintln!("harness: uncaught panic: {} @ {}", msg, loc);
        }
        LAST_PANIC.with(|p| *p.borrow_mut() = Some(format!("{} @ {}", msg, loc)));
    }));
}

/// Run `f`, turning a panic into `Err(message @ location)`.
pub fn catch<T>(f: impl FnOnce() -> T) -> Result<T, String> {
    LAST_PANIC.with(|p| *p.borrow_mut() = None);
    CATCH_DEPTH.with(|d| d.set(d.get() + 1));
    let r = std::panic::catch_unwind(std::panic::AssertUnwindSafe(f));
    CATCH_DEPTH.with(|d| d.set(d.get().saturating_sub(1)));
    match r {
        Ok(v) => Ok(v),
        Err(_) => Err(LAST_PANIC.with(|p| p.borrow_mut().take()).unwrap_or_else(|| "panic".into())),
    }
}

/// Fast non-cryptographic hash for large buffers (8 bytes at a time).
pub fn fast_hash(b: &[u8]) -> u64 {
    let mut h = 0x9E3779B97F4A7C15u64 ^ (b.len() as u64);
    let mut chunks = b.chunks_exact(8);
    for c in &mut chunks {
        let x = u64::from_le_bytes(c.try_into().unwrap());
        h = (h ^ x).wrapping_mul(0x100000001b3).rotate_left(29);
    }
    for x in chunks.remainder() {
        h = (h ^ *x as u64).wrapping_mul(0x100000001b3);
    }
    h ^ (h >> 32)
}
