//! Parent/child orchestration, merging, known findings, replay, evidence.
use serde_json::{json, Map, Value};
use std::{
    collections::{BTreeMap, BTreeSet, HashSet},
    io::{Read, Write},
    path::{Path, PathBuf},
    process::{Command, Stdio},
    time::{Duration, Instant},
};

use crate::Rng;

#[derive(Clone, Copy, Debug, PartialEq, Eq)]
pub enum Tier {
    Quick,
    Thorough,
}
impl Tier {
    pub fn name(self) -> &'static str {
        match self {
            Tier::Quick => "quick",
            Tier::Thorough => "thorough",
        }
    }
}

#[derive(Clone, Debug)]
pub struct Violation {
    pub kind: String,
    /// Exact identity of the witness (for known-findings matching and
    /// de-duplication). Must not depend on the seed that found it.
    pub signature: String,
    pub detail: String,
    /// the (minimised) case, human readable
    pub case: Value,
    pub case_index: u64,
}

/// What one child process (one shard) observed.
#[derive(Default)]
pub struct Shard {
    pub evaluations: u64,
    pub distinct: HashSet<u64>,
    pub cov: BTreeMap<String, u64>,
    pub samples: Vec<Value>,
    pub violations: Vec<Violation>,
    pub inconclusive: Vec<String>,
    seen_sigs: HashSet<String>,
}

pub const MAX_VIOLATIONS_PER_SHARD: usize = 40;
pub const MAX_DISTINCT_PER_SHARD: usize = 2_000_000;

impl Shard {
    pub fn hit(&mut self, key: &str) { *self.cov.entry(key.to_string()).or_default() += 1; }

    pub fn add(&mut self, key: &str, n: u64) {
        let e = self.cov.entry(key.to_string()).or_default();
        *e = e.saturating_add(n);
    }

    pub fn max(&mut self, key: &str, n: u64) {
        let e = self.cov.entry(key.to_string()).or_default();
        if n > *e {
            *e = n
        }
    }

    pub fn get(&self, key: &str) -> u64 { self.cov.get(key).copied().unwrap_or(0) }

    /// record a distinct non-trivial case by its hash
    /// (at most `MAX_DISTINCT_PER_SHARD` are kept, so the reported count is a lower bound)
    pub fn nontrivial(&mut self, h: u64) {
        if self.distinct.len() < MAX_DISTINCT_PER_SHARD {
            self.distinct.insert(h);
        }
    }

    pub fn sample(&mut self, v: impl FnOnce() -> Value) {
        if self.samples.len() < 3 {
            self.samples.push(v());
        }
    }

    pub fn violate(&mut self, case_index: u64, kind: &str, signature: String, detail: String, case: Value) {
        self.hit(&format!("violation.{}", kind));
        if self.seen_sigs.contains(&signature) || self.violations.len() >= MAX_VIOLATIONS_PER_SHARD {
            return;
        }
        self.seen_sigs.insert(signature.clone());
        self.violations.push(Violation { kind: kind.to_string(), signature, detail, case, case_index });
    }

    pub fn violation_budget_left(&self) -> bool { self.violations.len() < MAX_VIOLATIONS_PER_SHARD }

    fn to_json(&self) -> Value {
        let mut d: Vec<u64> = self.distinct.iter().copied().collect();
        d.sort();
        json!({
            "evaluations": self.evaluations,
            "distinct": d,
            "cov": self.cov,
            "samples": self.samples,
            "inconclusive": self.inconclusive,
            "violations": self.violations.iter().map(|v| json!({
                "kind": v.kind, "signature": v.signature, "detail": v.detail, "case": v.case, "case_index": v.case_index
            })).collect::<Vec<_>>(),
        })
    }

    fn from_json(v: &Value) -> Option<Shard> {
        let mut s = Shard::default();
        s.evaluations = v.get("evaluations")?.as_u64()?;
        for d in v.get("distinct")?.as_array()? {
            s.distinct.insert(d.as_u64()?);
        }
        for (k, n) in v.get("cov")?.as_object()? {
            s.cov.insert(k.clone(), n.as_u64()?);
        }
        s.samples = v.get("samples")?.as_array()?.clone();
        for i in v.get("inconclusive")?.as_array()? {
            s.inconclusive.push(i.as_str()?.to_string());
        }
        for x in v.get("violations")?.as_array()? {
            s.violations.push(Violation {
                kind: x.get("kind")?.as_str()?.to_string(),
                signature: x.get("signature")?.as_str()?.to_string(),
                detail: x.get("detail")?.as_str()?.to_string(),
                case: x.get("case")?.clone(),
                case_index: x.get("case_index")?.as_u64()?,
            });
        }
        Some(s)
    }
}

/// Context of a child (shard) process.
pub struct ChildCtx {
    pub prop: String,
    pub tier: Tier,
    pub seed: u64,
    pub shard: u32,
    pub nshards: u32,
    pub cases: u64,
    /// "" for the main (hooks) tier, otherwise the sanitizer tier name
    pub san: String,
    /// replay: run only this case index (verbose)
    pub only_case: Option<u64>,
    /// soft time budget: no new case is started after this many seconds
    pub budget_s: Option<u64>,
    started: Instant,
    progress: Option<std::fs::File>,
}

impl ChildCtx {
    /// The PRNG of one case depends only on (seed, property, tier-stream,
    /// shard, index), so a single case can be regenerated for replay.
    pub fn case_rng(&self, index: u64) -> Rng {
        Rng::new(crate::mix(&[self.seed, crate::fnv(self.prop.as_bytes()), crate::fnv(self.san.as_bytes()), self.shard as u64, index]))
    }

    /// Iterate over the case indices this child has to run.
    pub fn indices(&self) -> Box<dyn Iterator<Item = u64>> {
        match self.only_case {
            Some(i) => Box::new(std::iter::once(i)),
            None => {
                let started = self.started;
                let budget = self.budget_s;
                Box::new((0..self.cases).take_while(move |_| match budget {
                    Some(b) => started.elapsed() < Duration::from_secs(b),
                    None => true,
                }))
            }
        }
    }

    pub fn out_of_time(&self) -> bool {
        match self.budget_s {
            Some(b) => self.started.elapsed() >= Duration::from_secs(b),
            None => false,
        }
    }

    /// Mark the case about to be executed (read by the parent on a crash).
    pub fn begin_case(&self, index: u64) {
        if let Some(f) = &self.progress {
            use std::os::unix::fs::FileExt;
            let _ = f.write_all_at(&index.to_le_bytes(), 0);
        }
    }

    pub fn replaying(&self) -> bool { self.only_case.is_some() }
}

#[derive(Clone, Debug)]
pub struct SanTier {
    /// name; the command comes from env `VMON_SAN_<NAME>` (upper case)
    pub name: &'static str,
    pub shards: u32,
    pub cases: u64,
    pub timeout_s: u64,
    /// soft per-child time budget in seconds (0 = none)
    pub budget_s: u64,
}

#[derive(Clone, Debug)]
pub struct Plan {
    pub shards: u32,
    /// cases per shard
    pub cases: u64,
    pub timeout_s: u64,
    /// soft per-child time budget in seconds (0 = none)
    pub budget_s: u64,
    pub san: Vec<SanTier>,
    /// coverage keys that must reach a minimum, otherwise inconclusive
    pub floors: Vec<(String, u64)>,
    pub rule: String,
    pub assumptions: Vec<String>,
    /// a child killed by a signal / abort is a violation of this property
    /// (memory safety, "never panics", bounded allocation); otherwise
    /// inconclusive
    pub crash_is_violation: bool,
    /// property claims termination: a case that does not finish in isolation
    /// within `isolated_timeout_s` is a violation
    pub hang_is_violation: bool,
    pub isolated_timeout_s: u64,
}

impl Default for Plan {
    fn default() -> Self {
        Plan {
            shards: 16,
            cases: 100,
            timeout_s: 900,
            budget_s: 0,
            san: vec![],
            floors: vec![],
            rule: String::new(),
            assumptions: vec![],
            crash_is_violation: false,
            hang_is_violation: false,
            isolated_timeout_s: 120,
        }
    }
}

pub trait Engine {
    fn name(&self) -> &'static str;
    fn props(&self) -> Vec<&'static str>;
    fn plan(&self, prop: &str, tier: Tier) -> Plan;
    fn run_child(&self, ctx: &ChildCtx, out: &mut Shard);
}

/// println! that survives a closed stdout (e.g. `| head`).
macro_rules! say {
    ($($a:tt)*) => {{
        use std::io::Write as _;
        let _ = writeln!(std::io::stdout(), $($a)*);
    }};
}

fn root() -> PathBuf { PathBuf::from(std::env::var("VERIF_ROOT").unwrap_or_else(|_| "/verif".into())) }

fn arg_val(args: &[String], name: &str) -> Option<String> {
    args.iter().position(|a| a == name).and_then(|i| args.get(i + 1).cloned())
}

pub fn main_engine(e: &dyn Engine) -> ! {
    let args: Vec<String> = std::env::args().collect();
    if args.iter().any(|a| a == "--miri-warmup") {
        std::process::exit(0);
    }
    crate::install_panic_capture();
    if args.iter().any(|a| a == "--child") {
        child_main(e, &args);
    }
    if let Some(p) = arg_val(&args, "--replay") {
        replay_main(e, &p);
    }
    parent_main(e, &args)
}

fn parse_tier(s: &str) -> Tier {
    match s {
        "thorough" => Tier::Thorough,
        _ => Tier::Quick,
    }
}

fn child_main(e: &dyn Engine, args: &[String]) -> ! {
    let prop = arg_val(args, "--prop").expect("--prop");
    let tier = parse_tier(&arg_val(args, "--tier").unwrap_or_default());
    let seed: u64 = arg_val(args, "--seed").and_then(|s| s.parse().ok()).unwrap_or(1);
    let shard: u32 = arg_val(args, "--shard").and_then(|s| s.parse().ok()).unwrap_or(0);
    let nshards: u32 = arg_val(args, "--nshards").and_then(|s| s.parse().ok()).unwrap_or(1);
    let cases: u64 = arg_val(args, "--cases").and_then(|s| s.parse().ok()).unwrap_or(1);
    let san = arg_val(args, "--san").unwrap_or_default();
    let only_case: Option<u64> = arg_val(args, "--only-case").and_then(|s| s.parse().ok());
    let budget_s: Option<u64> = arg_val(args, "--budget-s").and_then(|s| s.parse().ok());
    let out_path = arg_val(args, "--out").expect("--out");
    let progress = std::fs::OpenOptions::new().create(true).write(true).truncate(true).open(format!("{}.progress", out_path)).ok();
    let ctx = ChildCtx { prop, tier, seed, shard, nshards, cases, san, only_case, budget_s, started: Instant::now(), progress };
    let mut sh = Shard::default();
    e.run_child(&ctx, &mut sh);
    let tmp = format!("{}.tmp", out_path);
    std::fs::write(&tmp, serde_json::to_vec(&sh.to_json()).unwrap()).expect("write shard");
    std::fs::rename(&tmp, &out_path).expect("rename shard");
    std::process::exit(0)
}

struct ChildResult {
    tier_name: String,
    shard: u32,
    nshards: u32,
    cases: u64,
    report: Option<Shard>,
    /// exit description when there is no report
    failure: Option<String>,
    stderr_tail: String,
    timed_out: bool,
    progress: Option<u64>,
}

fn san_cmd(name: &str) -> Option<Vec<String>> {
    let v = std::env::var(format!("VMON_SAN_{}", name.to_uppercase())).ok()?;
    let parts: Vec<String> = v.split_whitespace().map(|s| s.to_string()).collect();
    if parts.is_empty() {
        None
    } else {
        Some(parts)
    }
}

#[allow(clippy::too_many_arguments)]
fn spawn_wave(
    cmd_prefix: &[String],
    prop: &str,
    tier: Tier,
    seed: u64,
    san: &str,
    nshards: u32,
    cases: u64,
    timeout_s: u64,
    budget_s: u64,
    run_dir: &Path,
    only: Option<(u32, u64)>,
) -> Vec<ChildResult> {
    let mut kids = vec![];
    let shards: Vec<u32> = match only {
        Some((s, _)) => vec![s],
        None => (0..nshards).collect(),
    };
    for shard in shards {
        let tag = if san.is_empty() { "main".to_string() } else { san.to_string() };
        let suffix = if only.is_some() { "-iso" } else { "" };
        let out = run_dir.join(format!("{}-{}{}.json", tag, shard, suffix));
        let errp = run_dir.join(format!("{}-{}{}.stderr", tag, shard, suffix));
        let _ = std::fs::remove_file(&out);
        let errf = std::fs::File::create(&errp).expect("stderr file");
        let mut c = Command::new(&cmd_prefix[0]);
        c.args(&cmd_prefix[1..]);
        c.args(["--child", "--prop", prop, "--tier", tier.name(), "--seed", &seed.to_string(), "--shard", &shard.to_string(), "--nshards", &nshards.to_string(), "--cases", &cases.to_string(), "--out", out.to_str().unwrap()]);
        if !san.is_empty() {
            c.args(["--san", san]);
        }
        if let Some((_, idx)) = only {
            c.args(["--only-case", &idx.to_string()]);
        }
        if budget_s > 0 {
            c.args(["--budget-s", &budget_s.to_string()]);
        }
        c.stdin(Stdio::null()).stdout(Stdio::null()).stderr(Stdio::from(errf));
        let child = c.spawn();
        kids.push((shard, out, errp, child));
    }
    let start = Instant::now();
    let mut results = vec![];
    let mut pending: Vec<_> = kids.into_iter().map(Some).collect();
    loop {
        let mut all_done = true;
        for slot in pending.iter_mut() {
            let done = match slot {
                None => continue,
                Some((shard, out, errp, child)) => match child {
                    Err(e) => Some(ChildResult { tier_name: san.to_string(), shard: *shard, nshards, cases, report: None, failure: Some(format!("spawn failed: {}", e)), stderr_tail: String::new(), timed_out: false, progress: None }),
                    Ok(ch) => {
                        let timed_out = start.elapsed() > Duration::from_secs(timeout_s);
                        let status = if timed_out {
                            let _ = ch.kill();
                            ch.wait().ok()
                        } else {
                            ch.try_wait().ok().flatten()
                        };
                        match status {
                            None => None,
                            Some(st) => {
                                let report = std::fs::read(&*out).ok().and_then(|b| serde_json::from_slice::<Value>(&b).ok()).and_then(|v| Shard::from_json(&v));
                                let stderr_tail = tail(errp, 6000);
                                let progress = std::fs::read(format!("{}.progress", out.to_str().unwrap())).ok().and_then(|b| if b.len() >= 8 { Some(u64::from_le_bytes(b[..8].try_into().unwrap())) } else { None });
                                let failure = if report.is_some() && st.success() {
                                    None
                                } else {
                                    use std::os::unix::process::ExitStatusExt;
                                    Some(match (st.code(), st.signal()) {
                                        (_, Some(sig)) => format!("killed by signal {}", sig),
                                        (Some(c), _) => format!("exit code {}", c),
                                        _ => "unknown exit".into(),
                                    })
                                };
                                Some(ChildResult { tier_name: san.to_string(), shard: *shard, nshards, cases, report: if failure.is_none() { report } else { None }, failure, stderr_tail, timed_out, progress })
                            }
                        }
                    }
                },
            };
            match done {
                Some(r) => {
                    results.push(r);
                    *slot = None;
                }
                None => all_done = false,
            }
        }
        if all_done {
            break;
        }
        std::thread::sleep(Duration::from_millis(50));
    }
    results
}

fn tail(p: &Path, n: usize) -> String {
    let mut s = String::new();
    if let Ok(mut f) = std::fs::File::open(p) {
        let mut b = vec![];
        let _ = f.read_to_end(&mut b);
        let start = b.len().saturating_sub(n);
        s = String::from_utf8_lossy(&b[start..]).to_string();
    }
    s
}

/// An uncaught panic whose location is inside the repository under test (not the harness).
fn panic_in_code_under_test(stderr: &str) -> bool {
    stderr.lines().any(|l| l.contains("uncaught panic") && (l.contains("/rust-src/") || l.contains("/smart-contracts/")) && !l.contains("/harness/"))
}

fn classify_crash(stderr: &str) -> Option<&'static str> {
    if stderr.contains("AddressSanitizer") {
        Some("asan-report")
    } else if stderr.contains("Undefined Behavior") {
        Some("miri-ub")
    } else if stderr.contains("Data race detected") {
        Some("miri-data-race")
    } else if stderr.contains("memory allocation of") {
        Some("alloc-failure")
    } else if stderr.contains("has overflowed its stack") {
        Some("stack-overflow")
    } else if stderr.contains("ERROR SUMMARY") && !stderr.contains("ERROR SUMMARY: 0 errors") {
        Some("memcheck-report")
    } else {
        None
    }
}

struct Known {
    open: Vec<(String, String, String)>, // property, signature, what
}

fn load_known() -> Known {
    let mut k = Known { open: vec![] };
    if let Ok(b) = std::fs::read(root().join("known_findings.json")) {
        if let Ok(v) = serde_json::from_slice::<Value>(&b) {
            if let Some(a) = v.get("findings").and_then(|a| a.as_array()) {
                for f in a {
                    if f.get("status").and_then(|s| s.as_str()) == Some("open") {
                        k.open.push((
                            f.get("property").and_then(|s| s.as_str()).unwrap_or("").to_string(),
                            f.get("signature").and_then(|s| s.as_str()).unwrap_or("").to_string(),
                            f.get("what").and_then(|s| s.as_str()).unwrap_or("").to_string(),
                        ));
                    }
                }
            }
        }
    }
    k
}

fn sanitize_name(s: &str) -> String { s.chars().map(|c| if c.is_ascii_alphanumeric() || c == '-' || c == '_' { c } else { '_' }).take(80).collect() }

fn parent_main(e: &dyn Engine, args: &[String]) -> ! {
    let prop = arg_val(args, "--prop").expect("--prop <ID>");
    let tier = parse_tier(&arg_val(args, "--tier").or_else(|| std::env::var("VERIF_TIER").ok()).unwrap_or_default());
    let seed: u64 = arg_val(args, "--seed").or_else(|| std::env::var("VERIF_SEED").ok()).and_then(|s| s.trim().parse().ok()).unwrap_or(1);
    if !e.props().contains(&prop.as_str()) {
        say!("INCONCLUSIVE property={} reason=engine {} does not serve it", prop, e.name());
        std::process::exit(2);
    }
    let start = Instant::now();
    let mut plan = e.plan(&prop, tier);
    // experiments only: VMON_SKIP_SAN=1 leaves the sanitizer tiers out (the evidence says so)
    let skipped_san = std::env::var("VMON_SKIP_SAN").is_ok() && !plan.san.is_empty();
    if skipped_san {
        plan.san.clear();
    }
    // optional scaling for experiments: VMON_SCALE=0.1
    if let Some(f) = std::env::var("VMON_SCALE").ok().and_then(|s| s.parse::<f64>().ok()) {
        plan.cases = ((plan.cases as f64) * f).max(1.0) as u64;
    }
    let run_dir = root().join("run").join(&prop);
    let _ = std::fs::remove_dir_all(&run_dir);
    std::fs::create_dir_all(&run_dir).expect("run dir");
    let exe = std::env::current_exe().expect("current_exe").to_str().unwrap().to_string();

    let mut results = spawn_wave(&[exe.clone()], &prop, tier, seed, "", plan.shards, plan.cases, plan.timeout_s, plan.budget_s, &run_dir, None);
    let mut inconclusive: Vec<String> = vec![];
    let mut san_summary = Map::new();
    for st in &plan.san {
        match san_cmd(st.name) {
            None => inconclusive.push(format!("sanitizer tier {} requested but VMON_SAN_{} is not set", st.name, st.name.to_uppercase())),
            Some(cmd) => {
                let r = spawn_wave(&cmd, &prop, tier, seed, st.name, st.shards, st.cases, st.timeout_s, st.budget_s, &run_dir, None);
                results.extend(r);
            }
        }
    }

    // ---- merge
    let mut evaluations = 0u64;
    let mut distinct: HashSet<u64> = HashSet::new();
    let mut cov: BTreeMap<String, u64> = BTreeMap::new();
    let mut samples: Vec<Value> = vec![];
    // (violation, tier, shard, nshards)
    let mut violations: Vec<(Violation, String, u32, u32)> = vec![];
    let mut sigs: BTreeSet<String> = BTreeSet::new();
    for r in &results {
        let tn = if r.tier_name.is_empty() { "main" } else { &r.tier_name };
        match &r.report {
            Some(sh) => {
                if r.tier_name.is_empty() {
                    evaluations += sh.evaluations;
                    distinct.extend(sh.distinct.iter().copied());
                    if samples.len() < 4 {
                        samples.extend(sh.samples.iter().take(1).cloned());
                    }
                    for (k, n) in &sh.cov {
                        let e = cov.entry(k.clone()).or_default();
                        if k.starts_with("max.") {
                            *e = (*e).max(*n)
                        } else {
                            *e = e.saturating_add(*n)
                        }
                    }
                } else {
                    let ent = san_summary.entry(tn.to_string()).or_insert_with(|| json!({"evaluations":0u64,"shards_ok":0u64,"reports":0u64}));
                    ent["evaluations"] = json!(ent["evaluations"].as_u64().unwrap() + sh.evaluations);
                    ent["shards_ok"] = json!(ent["shards_ok"].as_u64().unwrap() + 1);
                    for (k, n) in &sh.cov {
                        let e = cov.entry(format!("{}.{}", tn, k)).or_default();
                        if k.starts_with("max.") {
                            *e = (*e).max(*n)
                        } else {
                            *e = e.saturating_add(*n)
                        }
                    }
                }
                for m in &sh.inconclusive {
                    inconclusive.push(format!("{}[{}]: {}", tn, r.shard, m));
                }
                for v in &sh.violations {
                    if sigs.insert(v.signature.clone()) {
                        violations.push((v.clone(), r.tier_name.clone(), r.shard, r.nshards));
                    }
                }
            }
            None => {
                let why = r.failure.clone().unwrap_or_default();
                let crash_kind = classify_crash(&r.stderr_tail);
                let idx = r.progress.unwrap_or(0);
                if r.timed_out {
                    // re-run the case that was executing, in isolation
                    let mut verdict_hang = false;
                    if plan.hang_is_violation {
                        if let Some(i) = r.progress {
                            let cmd = if r.tier_name.is_empty() { vec![exe.clone()] } else { san_cmd(&r.tier_name).unwrap_or_else(|| vec![exe.clone()]) };
                            let iso = spawn_wave(&cmd, &prop, tier, seed, &r.tier_name, r.nshards, r.cases, plan.isolated_timeout_s, 0, &run_dir, Some((r.shard, i)));
                            if iso.iter().any(|x| x.timed_out) {
                                verdict_hang = true;
                            }
                        }
                    }
                    if verdict_hang {
                        let sig = format!("hang:{}:{}:{}:{}", tn, seed, r.shard, idx);
                        if sigs.insert(sig.clone()) {
                            violations.push((Violation { kind: "nontermination".into(), signature: sig, detail: format!("case did not finish within {} s when re-run alone (normal cases take milliseconds)", plan.isolated_timeout_s), case: json!({"regenerate": true}), case_index: idx }, r.tier_name.clone(), r.shard, r.nshards));
                        }
                    } else {
                        inconclusive.push(format!("{}[{}]: watchdog fired after {} s (case index {})", tn, r.shard, if r.tier_name.is_empty() { plan.timeout_s } else { plan.san.iter().find(|s| s.name == r.tier_name).map(|s| s.timeout_s).unwrap_or(0) }, idx));
                    }
                } else if let Some(kind) = crash_kind.filter(|k| plan.crash_is_violation || k.starts_with("asan") || k.starts_with("miri") || k.starts_with("memcheck")) {
                    let sig = format!("crash:{}:{}:{}:{}:{}", kind, tn, seed, r.shard, idx);
                    if sigs.insert(sig.clone()) {
                        violations.push((Violation { kind: kind.to_string(), signature: sig, detail: format!("child {}; stderr tail:\n{}", why, last_lines(&r.stderr_tail, 40)), case: json!({"regenerate": true}), case_index: idx }, r.tier_name.clone(), r.shard, r.nshards));
                    }
                    if !r.tier_name.is_empty() {
                        let ent = san_summary.entry(tn.to_string()).or_insert_with(|| json!({"evaluations":0u64,"shards_ok":0u64,"reports":0u64}));
                        ent["reports"] = json!(ent["reports"].as_u64().unwrap() + 1);
                    }
                } else if why == "exit code 101" && panic_in_code_under_test(&r.stderr_tail) {
                    // the child died of a panic raised inside /repo's code that no oracle wrapped
                    let loc = r.stderr_tail.lines().rev().find(|l| l.contains("uncaught panic")).unwrap_or("").to_string();
                    let sig = format!("crash:uncaught-panic:{}:{}", tn, crate::fnv(loc.as_bytes()));
                    if sigs.insert(sig.clone()) {
                        violations.push((Violation { kind: "panic-in-code-under-test".into(), signature: sig, detail: format!("child died of a panic inside the code under test: {}", loc), case: json!({"regenerate": true}), case_index: idx }, r.tier_name.clone(), r.shard, r.nshards));
                    }
                } else if plan.crash_is_violation && why.starts_with("killed by signal") {
                    let sig = format!("crash:signal:{}:{}:{}:{}", tn, seed, r.shard, idx);
                    if sigs.insert(sig.clone()) {
                        violations.push((Violation { kind: "crash".into(), signature: sig, detail: format!("child {}; stderr tail:\n{}", why, last_lines(&r.stderr_tail, 40)), case: json!({"regenerate": true}), case_index: idx }, r.tier_name.clone(), r.shard, r.nshards));
                    }
                } else {
                    inconclusive.push(format!("{}[{}]: child failed ({}) at case {}; stderr tail: {}", tn, r.shard, why, idx, last_lines(&r.stderr_tail, 8)));
                }
            }
        }
    }

    // floors
    for (k, min) in &plan.floors {
        let got = cov.get(k).copied().unwrap_or(0);
        if got < *min {
            inconclusive.push(format!("coverage floor not met: {} = {} < {}", k, got, min));
        }
    }
    if evaluations == 0 {
        inconclusive.push("no executions were judged".into());
    }

    // known findings, replays
    let known = load_known();
    let mut real = 0;
    let mut known_hits = vec![];
    let rep_dir = root().join("replays").join(&prop);
    for (v, tn, shard, nshards) in &violations {
        if let Some((_, _, what)) = known.open.iter().find(|(p, s, _)| p == &prop && s == &v.signature) {
            say!("KNOWN-FINDING: property={} {}", prop, what);
            known_hits.push(v.signature.clone());
            continue;
        }
        real += 1;
        let _ = std::fs::create_dir_all(&rep_dir);
        let path = rep_dir.join(format!("{}-{:016x}.json", sanitize_name(&v.kind), crate::fnv(v.signature.as_bytes())));
        let rep = json!({
            "property": prop, "engine": e.name(), "tier": tier.name(), "san": tn, "seed": seed, "shard": shard, "nshards": nshards,
            "case_index": v.case_index, "kind": v.kind, "signature": v.signature, "detail": v.detail, "case": v.case,
        });
        let _ = std::fs::write(&path, serde_json::to_vec_pretty(&rep).unwrap());
        say!("VIOLATION property={} replay={}", prop, path.display());
        say!("  kind={} {}", v.kind, first_line(&v.detail));
    }

    // evidence
    let wall = start.elapsed().as_secs_f64();
    let mut coverage = Map::new();
    coverage.insert("evaluations".into(), json!(evaluations));
    coverage.insert("distinct_nontrivial".into(), json!(distinct.len()));
    coverage.insert("rule".into(), json!(plan.rule));
    coverage.insert("samples".into(), Value::Array(samples));
    coverage.insert("exhaustive".into(), json!(false));
    coverage.insert("observed".into(), json!(cov));
    coverage.insert("sanitizer_tiers".into(), Value::Object(san_summary));
    coverage.insert("floors".into(), json!(plan.floors.iter().map(|(k, m)| json!({"key": k, "min": m, "got": cov.get(k).copied().unwrap_or(0)})).collect::<Vec<_>>()));
    coverage.insert("inconclusive".into(), json!(inconclusive));
    coverage.insert("known_findings_matched".into(), json!(known_hits));
    coverage.insert("shards".into(), json!(plan.shards));
    coverage.insert("sanitizer_tiers_skipped_by_env".into(), json!(skipped_san));
    let ev = json!({
        "property_id": prop, "tier": tier.name(), "seed": seed, "level": "exploration",
        "coverage": Value::Object(coverage), "assumptions": plan.assumptions, "wall_s": wall, "violations": real,
    });
    let evdir = root().join("evidence");
    let _ = std::fs::create_dir_all(&evdir);
    let evp = evdir.join(format!("{}.json", prop));
    let mut f = std::fs::File::create(&evp).expect("evidence file");
    f.write_all(&serde_json::to_vec_pretty(&ev).unwrap()).unwrap();
    f.write_all(b"\n").unwrap();

    say!(
        "{} {} tier={} seed={} evaluations={} distinct_nontrivial={} violations={} known={} inconclusive={} wall={:.1}s",
        e.name(), prop, tier.name(), seed, evaluations, distinct.len(), real, known_hits.len(), inconclusive.len(), wall
    );
    if real > 0 {
        std::process::exit(1);
    }
    if !inconclusive.is_empty() {
        for m in inconclusive.iter().take(10) {
            say!("INCONCLUSIVE property={} reason={}", prop, m.replace('\n', " | "));
        }
        std::process::exit(2);
    }
    std::process::exit(0)
}

fn first_line(s: &str) -> String { s.lines().next().unwrap_or("").chars().take(300).collect() }

fn last_lines(s: &str, n: usize) -> String {
    let ls: Vec<&str> = s.lines().collect();
    ls[ls.len().saturating_sub(n)..].join("\n")
}

fn replay_main(e: &dyn Engine, path: &str) -> ! {
    let v: Value = serde_json::from_slice(&std::fs::read(path).expect("read replay")).expect("parse replay");
    let prop = v["property"].as_str().expect("property").to_string();
    let tier = parse_tier(v["tier"].as_str().unwrap_or("quick"));
    let san = v["san"].as_str().unwrap_or("").to_string();
    let ctx = ChildCtx {
        prop: prop.clone(),
        tier,
        seed: v["seed"].as_u64().unwrap_or(1),
        shard: v["shard"].as_u64().unwrap_or(0) as u32,
        nshards: v["nshards"].as_u64().unwrap_or(1) as u32,
        cases: 0,
        san: san.clone(),
        only_case: Some(v["case_index"].as_u64().unwrap_or(0)),
        budget_s: None,
        started: Instant::now(),
        progress: None,
    };
    if !san.is_empty() {
        say!("note: this witness was found under sanitizer tier '{}'; replaying on the current binary", san);
    }
    let mut sh = Shard::default();
    e.run_child(&ctx, &mut sh);
    if sh.violations.is_empty() {
        say!("replay: property={} case {} did not violate on the current tree (judged {} executions)", prop, ctx.only_case.unwrap(), sh.evaluations);
        std::process::exit(0)
    }
    for x in &sh.violations {
        say!("VIOLATION property={} replay={}", prop, path);
        say!("  kind={} signature={}", x.kind, x.signature);
        say!("  {}", x.detail);
        say!("  case={}", serde_json::to_string_pretty(&x.case).unwrap());
    }
    std::process::exit(1)
}
