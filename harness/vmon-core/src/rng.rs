//! SplitMix64. All randomness in the harness comes from here.
#[derive(Clone)]
pub struct Rng(pub u64);

impl Rng {
    pub fn new(seed: u64) -> Self { Rng(seed) }

    pub fn next(&mut self) -> u64 {
        self.0 = self.0.wrapping_add(0x9E3779B97F4A7C15);
        let mut z = self.0;
        z = (z ^ (z >> 30)).wrapping_mul(0xBF58476D1CE4E5B9);
        z = (z ^ (z >> 27)).wrapping_mul(0x94D049BB133111EB);
        z ^ (z >> 31)
    }

    pub fn below(&mut self, n: u64) -> u64 {
        if n == 0 {
            0
        } else {
            self.next() % n
        }
    }

    pub fn range(&mut self, lo: u64, hi_incl: u64) -> u64 { lo + self.below(hi_incl - lo + 1) }

    pub fn chance(&mut self, num: u64, den: u64) -> bool { self.below(den) < num }

    pub fn pick<'a, T>(&mut self, xs: &'a [T]) -> &'a T { &xs[self.below(xs.len() as u64) as usize] }

    pub fn bytes(&mut self, n: usize) -> Vec<u8> { (0..n).map(|_| self.next() as u8).collect() }

    pub fn fill(&mut self, out: &mut [u8]) {
        for b in out.iter_mut() {
            *b = self.next() as u8;
        }
    }

    /// boundary-weighted 32 bit value
    pub fn i32v(&mut self) -> i32 {
        match self.below(10) {
            0 => 0,
            1 => 1,
            2 => -1,
            3 => i32::MIN,
            4 => i32::MAX,
            5 => self.below(70000) as i32,
            6 => 1i32.wrapping_shl(self.below(32) as u32),
            7 => (1i32.wrapping_shl(self.below(32) as u32)).wrapping_sub(1),
            _ => self.next() as i32,
        }
    }

    /// boundary-weighted 64 bit value
    pub fn i64v(&mut self) -> i64 {
        match self.below(10) {
            0 => 0,
            1 => 1,
            2 => -1,
            3 => i64::MIN,
            4 => i64::MAX,
            5 => self.below(70000) as i64,
            6 => 1i64.wrapping_shl(self.below(64) as u32),
            7 => (1i64.wrapping_shl(self.below(64) as u32)).wrapping_sub(1),
            _ => self.next() as i64,
        }
    }

    pub fn u64v(&mut self) -> u64 { self.i64v() as u64 }

    pub fn shuffle<T>(&mut self, xs: &mut [T]) {
        for i in (1..xs.len()).rev() {
            let j = self.below(i as u64 + 1) as usize;
            xs.swap(i, j);
        }
    }
}

/// `rand_core` style adaptor is provided by the engines that need it (the
/// crypto engine wraps this in its own `RngCore` impl).
impl Rng {
    pub fn next_u32(&mut self) -> u32 { self.next() as u32 }
}
