//! Harness-side Wasm AST, binary encoder. Independent of the engine's parser.
#[derive(Clone, Copy, Debug, PartialEq, Eq)]
pub enum Ty {
    I32,
    I64,
}
impl Ty {
    pub fn byte(self) -> u8 {
        match self {
            Ty::I32 => 0x7f,
            Ty::I64 => 0x7e,
        }
    }
}

#[derive(Clone, Debug, PartialEq, Eq)]
pub struct FuncTy {
    pub params: Vec<Ty>,
    pub result: Option<Ty>,
}

#[derive(Clone, Debug)]
pub enum Instr {
    /// plain opcode without immediates (numeric, drop, select, nop, unreachable, return)
    Op(u8),
    Const32(i32),
    Const64(i64),
    LocalGet(u32),
    LocalSet(u32),
    LocalTee(u32),
    GlobalGet(u32),
    GlobalSet(u32),
    /// opcode, align, offset
    Mem(u8, u32, u32),
    MemSize,
    MemGrow,
    Block(Option<Ty>, Vec<Instr>),
    Loop(Option<Ty>, Vec<Instr>),
    If(Option<Ty>, Vec<Instr>, Option<Vec<Instr>>),
    Br(u32),
    BrIf(u32),
    BrTable(Vec<u32>, u32),
    Call(u32),
    CallIndirect(u32),
}

pub const OP_UNREACHABLE: u8 = 0x00;
pub const OP_NOP: u8 = 0x01;
pub const OP_RETURN: u8 = 0x0f;
pub const OP_DROP: u8 = 0x1a;
pub const OP_SELECT: u8 = 0x1b;

#[derive(Clone, Debug)]
pub struct Func {
    pub ty: u32,
    pub locals: Vec<Ty>,
    pub body: Vec<Instr>,
}

#[derive(Clone, Debug)]
pub struct Global {
    pub ty: Ty,
    pub mutable: bool,
    pub init: i64,
}

#[derive(Clone, Debug)]
pub struct Import {
    pub module: String,
    pub name: String,
    pub ty: u32,
}

#[derive(Clone, Debug, Default)]
pub struct Module {
    pub types: Vec<FuncTy>,
    pub imports: Vec<Import>,
    pub funcs: Vec<Func>,
    /// table size and element segments (offset, funcs)
    pub table: Option<u32>,
    pub elems: Vec<(u32, Vec<u32>)>,
    /// (min, max)
    pub memory: Option<(u32, Option<u32>)>,
    pub data: Vec<(u32, Vec<u8>)>,
    pub globals: Vec<Global>,
    /// (name, func index in the joint index space)
    pub exports: Vec<(String, u32)>,
}

thread_local! {
    /// (index of the LEB128 to pad counting from 0, number of padding bytes); used by the
    /// LEB-level mutator to produce non-minimal but structurally consistent encodings.
    pub static LEB_PAD: std::cell::Cell<Option<(usize, usize)>> = const { std::cell::Cell::new(None) };
    pub static LEB_COUNT: std::cell::Cell<usize> = const { std::cell::Cell::new(0) };
}

fn pad_now() -> usize {
    let k = LEB_COUNT.with(|c| {
        let k = c.get();
        c.set(k + 1);
        k
    });
    match LEB_PAD.with(|p| p.get()) {
        Some((i, n)) if i == k => n,
        _ => 0,
    }
}

/// Padding amounts >= OVERFLOW request an *out-of-range* encoding instead: the value is padded
/// to its maximal length (5 bytes for 32-bit, 10 for 64-bit fields) and bits that do not fit the
/// field are set in the last byte (amount - OVERFLOW selects which). Such a module is malformed.
pub const OVERFLOW: usize = 1000;

pub fn leb_u(out: &mut Vec<u8>, v: u64) {
    let pad = pad_now();
    let start = out.len();
    leb_u_raw(out, v);
    if pad >= OVERFLOW {
        // every unsigned LEB128 of Wasm 1.0 is a u32
        while out.len() - start < 5 {
            let l = out.len();
            out[l - 1] |= 0x80;
            out.push(0x00);
        }
        let l = out.len();
        out[l - 1] |= (1 + ((pad - OVERFLOW) % 7) as u8) << 4;
        return;
    }
    if pad > 0 {
        let l = out.len();
        out[l - 1] |= 0x80;
        for _ in 0..pad - 1 {
            out.push(0x80);
        }
        out.push(0x00);
    }
}

pub fn leb_s32(out: &mut Vec<u8>, v: i32) { leb_s_bits(out, v as i64, 32) }
pub fn leb_s(out: &mut Vec<u8>, v: i64) { leb_s_bits(out, v, 64) }

fn leb_s_bits(out: &mut Vec<u8>, v: i64, bits: u32) {
    let pad = pad_now();
    let start = out.len();
    leb_s_raw(out, v);
    let fill = if v < 0 { 0x7f } else { 0x00 };
    if pad >= OVERFLOW {
        let full = if bits == 32 { 5 } else { 10 };
        while out.len() - start < full {
            let l = out.len();
            out[l - 1] |= 0x80;
            out.push(fill);
        }
        // flip one of the bits of the last byte that must be a copy of the sign bit
        let used = bits - 7 * (full as u32 - 1); // value bits in the last byte: 4 resp. 1
        let spare = 7 - used;
        let l = out.len();
        out[l - 1] ^= 1 << (used + ((pad - OVERFLOW) as u32 % spare));
        return;
    }
    if pad > 0 {
        let l = out.len();
        out[l - 1] |= 0x80;
        for _ in 0..pad - 1 {
            out.push(fill | 0x80);
        }
        out.push(fill);
    }
}

pub fn leb_u_raw(out: &mut Vec<u8>, mut v: u64) {
    loop {
        let b = (v & 0x7f) as u8;
        v >>= 7;
        if v == 0 {
            out.push(b);
            break;
        } else {
            out.push(b | 0x80);
        }
    }
}
pub fn leb_s_raw(out: &mut Vec<u8>, mut v: i64) {
    loop {
        let b = (v & 0x7f) as u8;
        v >>= 7;
        let done = (v == 0 && b & 0x40 == 0) || (v == -1 && b & 0x40 != 0);
        if done {
            out.push(b);
            break;
        } else {
            out.push(b | 0x80);
        }
    }
}
fn name(out: &mut Vec<u8>, s: &str) {
    leb_u(out, s.len() as u64);
    out.extend_from_slice(s.as_bytes());
}
fn bt(out: &mut Vec<u8>, t: Option<Ty>) {
    match t {
        None => out.push(0x40),
        Some(t) => out.push(t.byte()),
    }
}
pub fn enc_instrs(out: &mut Vec<u8>, is: &[Instr]) {
    for i in is {
        match i {
            Instr::Op(b) => out.push(*b),
            Instr::Const32(c) => {
                out.push(0x41);
                leb_s32(out, *c)
            }
            Instr::Const64(c) => {
                out.push(0x42);
                leb_s(out, *c)
            }
            Instr::LocalGet(x) => {
                out.push(0x20);
                leb_u(out, *x as u64)
            }
            Instr::LocalSet(x) => {
                out.push(0x21);
                leb_u(out, *x as u64)
            }
            Instr::LocalTee(x) => {
                out.push(0x22);
                leb_u(out, *x as u64)
            }
            Instr::GlobalGet(x) => {
                out.push(0x23);
                leb_u(out, *x as u64)
            }
            Instr::GlobalSet(x) => {
                out.push(0x24);
                leb_u(out, *x as u64)
            }
            Instr::Mem(op, align, off) => {
                out.push(*op);
                leb_u(out, *align as u64);
                leb_u(out, *off as u64)
            }
            Instr::MemSize => {
                out.push(0x3f);
                out.push(0)
            }
            Instr::MemGrow => {
                out.push(0x40);
                out.push(0)
            }
            Instr::Block(t, b) => {
                out.push(0x02);
                bt(out, *t);
                enc_instrs(out, b);
                out.push(0x0b)
            }
            Instr::Loop(t, b) => {
                out.push(0x03);
                bt(out, *t);
                enc_instrs(out, b);
                out.push(0x0b)
            }
            Instr::If(t, a, b) => {
                out.push(0x04);
                bt(out, *t);
                enc_instrs(out, a);
                if let Some(b) = b {
                    out.push(0x05);
                    enc_instrs(out, b);
                }
                out.push(0x0b)
            }
            Instr::Br(l) => {
                out.push(0x0c);
                leb_u(out, *l as u64)
            }
            Instr::BrIf(l) => {
                out.push(0x0d);
                leb_u(out, *l as u64)
            }
            Instr::BrTable(ls, d) => {
                out.push(0x0e);
                leb_u(out, ls.len() as u64);
                for l in ls {
                    leb_u(out, *l as u64)
                }
                leb_u(out, *d as u64)
            }
            Instr::Call(f) => {
                out.push(0x10);
                leb_u(out, *f as u64)
            }
            Instr::CallIndirect(t) => {
                out.push(0x11);
                leb_u(out, *t as u64);
                out.push(0)
            }
        }
    }
}
fn section(out: &mut Vec<u8>, id: u8, body: Vec<u8>) {
    out.push(id);
    leb_u(out, body.len() as u64);
    out.extend(body);
}
impl Module {
    /// Encode with the `which`-th LEB128 padded by `pad` bytes; returns the bytes and the
    /// total number of LEB128 values in the encoding.
    pub fn encode_padded(&self, which: usize, pad: usize) -> (Vec<u8>, usize) {
        LEB_COUNT.with(|c| c.set(0));
        LEB_PAD.with(|p| p.set(Some((which, pad))));
        let b = self.encode_inner();
        LEB_PAD.with(|p| p.set(None));
        (b, LEB_COUNT.with(|c| c.get()))
    }

    pub fn encode(&self) -> Vec<u8> {
        LEB_PAD.with(|p| p.set(None));
        self.encode_inner()
    }

    fn encode_inner(&self) -> Vec<u8> {
        let mut out = vec![0x00, 0x61, 0x73, 0x6d, 1, 0, 0, 0];
        if !self.types.is_empty() {
            let mut b = vec![];
            leb_u(&mut b, self.types.len() as u64);
            for t in &self.types {
                b.push(0x60);
                leb_u(&mut b, t.params.len() as u64);
                for p in &t.params {
                    b.push(p.byte())
                }
                match t.result {
                    None => b.push(0),
                    Some(r) => {
                        b.push(1);
                        b.push(r.byte())
                    }
                }
            }
            section(&mut out, 1, b);
        }
        if !self.imports.is_empty() {
            let mut b = vec![];
            leb_u(&mut b, self.imports.len() as u64);
            for i in &self.imports {
                name(&mut b, &i.module);
                name(&mut b, &i.name);
                b.push(0);
                leb_u(&mut b, i.ty as u64);
            }
            section(&mut out, 2, b);
        }
        if !self.funcs.is_empty() {
            let mut b = vec![];
            leb_u(&mut b, self.funcs.len() as u64);
            for f in &self.funcs {
                leb_u(&mut b, f.ty as u64)
            }
            section(&mut out, 3, b);
        }
        if let Some(n) = self.table {
            let mut b = vec![1, 0x70, 0];
            leb_u(&mut b, n as u64);
            section(&mut out, 4, b);
        }
        if let Some((min, max)) = self.memory {
            let mut b = vec![1];
            match max {
                None => {
                    b.push(0);
                    leb_u(&mut b, min as u64)
                }
                Some(m) => {
                    b.push(1);
                    leb_u(&mut b, min as u64);
                    leb_u(&mut b, m as u64)
                }
            }
            section(&mut out, 5, b);
        }
        if !self.globals.is_empty() {
            let mut b = vec![];
            leb_u(&mut b, self.globals.len() as u64);
            for g in &self.globals {
                b.push(g.ty.byte());
                b.push(g.mutable as u8);
                match g.ty {
                    Ty::I32 => {
                        b.push(0x41);
                        leb_s32(&mut b, g.init as i32)
                    }
                    Ty::I64 => {
                        b.push(0x42);
                        leb_s(&mut b, g.init)
                    }
                }
                b.push(0x0b);
            }
            section(&mut out, 6, b);
        }
        if !self.exports.is_empty() {
            let mut b = vec![];
            leb_u(&mut b, self.exports.len() as u64);
            for (n, f) in &self.exports {
                name(&mut b, n);
                b.push(0);
                leb_u(&mut b, *f as u64);
            }
            section(&mut out, 7, b);
        }
        if !self.elems.is_empty() {
            let mut b = vec![];
            leb_u(&mut b, self.elems.len() as u64);
            for (off, fs) in &self.elems {
                b.push(0);
                b.push(0x41);
                leb_s32(&mut b, *off as i32);
                b.push(0x0b);
                leb_u(&mut b, fs.len() as u64);
                for f in fs {
                    leb_u(&mut b, *f as u64)
                }
            }
            section(&mut out, 9, b);
        }
        if !self.funcs.is_empty() {
            let mut b = vec![];
            leb_u(&mut b, self.funcs.len() as u64);
            for f in &self.funcs {
                let mut fb = vec![];
                // locals, run-length encoded
                let mut groups: Vec<(u32, Ty)> = vec![];
                for l in &f.locals {
                    match groups.last_mut() {
                        Some((n, t)) if *t == *l => *n += 1,
                        _ => groups.push((1, *l)),
                    }
                }
                leb_u(&mut fb, groups.len() as u64);
                for (n, t) in groups {
                    leb_u(&mut fb, n as u64);
                    fb.push(t.byte());
                }
                enc_instrs(&mut fb, &f.body);
                fb.push(0x0b);
                leb_u(&mut b, fb.len() as u64);
                b.extend(fb);
            }
            section(&mut out, 10, b);
        }
        if !self.data.is_empty() {
            let mut b = vec![];
            leb_u(&mut b, self.data.len() as u64);
            for (off, bytes) in &self.data {
                b.push(0);
                b.push(0x41);
                leb_s32(&mut b, *off as i32);
                b.push(0x0b);
                leb_u(&mut b, bytes.len() as u64);
                b.extend_from_slice(bytes);
            }
            section(&mut out, 11, b);
        }
        out
    }
}
