//! Random generator of valid Wasm modules (stack-directed, not expression-tree
//! shaped), aimed at the compiler's register allocation paths.
use crate::ast::*;

pub use vmon_core::Rng;

fn rty(r: &mut Rng) -> Ty {
    if r.chance(1, 2) {
        Ty::I32
    } else {
        Ty::I64
    }
}

#[derive(Clone, Copy)]
struct Label {
    is_loop: bool,
    ty: Option<Ty>,
    base: usize,
}

pub struct Cfg {
    pub sign_ext: bool,
    pub max_funcs: u64,
    /// maximum number of constructs per block body
    pub max_instrs: u64,
    /// maximum nesting depth of block/loop/if
    pub max_depth: u32,
    /// construct budget per function
    pub fn_budget: i64,
    /// always import both host functions (C13 wants host call sites)
    pub force_imports: bool,
    /// weight structured control towards loops and cheap instructions (C02)
    pub loop_heavy: bool,
    /// no linear memory at all (Miri tier: each run zero-fills 32 MiB otherwise)
    pub memless: bool,
    /// initial loop counter range 1..=max_iters
    pub max_iters: u64,
}

impl Cfg {
    pub fn small(sign_ext: bool) -> Cfg { Cfg { sign_ext, max_funcs: 4, max_instrs: 10, max_depth: 5, fn_budget: 60, force_imports: false, loop_heavy: false, memless: false, max_iters: 4 } }

    pub fn medium(sign_ext: bool) -> Cfg { Cfg { max_instrs: 30, max_depth: 7, fn_budget: 200, ..Cfg::small(sign_ext) } }

    pub fn large(sign_ext: bool) -> Cfg { Cfg { max_instrs: 100, max_depth: 8, fn_budget: 700, max_funcs: 6, ..Cfg::small(sign_ext) } }
}

struct FnCtx<'a> {
    m: &'a Module,
    /// types of all functions (joint index space)
    fn_tys: &'a [u32],
    self_idx: u32,
    locals: Vec<Ty>,
    counter: u32,
    stack: Vec<Ty>,
    labels: Vec<Label>,
    ret: Option<Ty>,
    cfg: &'a Cfg,
    budget: i64,
}

const I32_UN: &[u8] = &[0x45, 0x67, 0x68, 0x69];
const I32_UN_SX: &[u8] = &[0xc0, 0xc1];
const I64_UN: &[u8] = &[0x79, 0x7a, 0x7b];
const I64_UN_SX: &[u8] = &[0xc2, 0xc3, 0xc4];

impl<'a> FnCtx<'a> {
    fn top(&self, n: usize) -> Option<Ty> {
        let base = self.labels.last().unwrap().base;
        if self.stack.len() >= base + n + 1 {
            Some(self.stack[self.stack.len() - 1 - n])
        } else {
            None
        }
    }
    fn avail(&self) -> usize { self.stack.len() - self.labels.last().unwrap().base }

    fn push_val(&mut self, r: &mut Rng, t: Ty, out: &mut Vec<Instr>) {
        // produce a value of type t
        let cands: Vec<u32> = (0..self.locals.len() as u32).filter(|i| self.locals[*i as usize] == t && *i != self.counter).collect();
        let gcands: Vec<u32> = (0..self.m.globals.len() as u32).filter(|i| self.m.globals[*i as usize].ty == t).collect();
        match r.below(4) {
            0 | 1 if !cands.is_empty() => out.push(Instr::LocalGet(*r.pick(&cands))),
            2 if !gcands.is_empty() => out.push(Instr::GlobalGet(*r.pick(&gcands))),
            _ => match t {
                Ty::I32 => out.push(Instr::Const32(r.i32v())),
                Ty::I64 => out.push(Instr::Const64(r.i64v())),
            },
        }
        self.stack.push(t);
    }

    /// make the stack above the current label base exactly `want`
    fn fixup(&mut self, r: &mut Rng, want: Option<Ty>, out: &mut Vec<Instr>) {
        let base = self.labels.last().unwrap().base;
        match want {
            None => {
                while self.stack.len() > base {
                    out.push(Instr::Op(OP_DROP));
                    self.stack.pop();
                }
            }
            Some(t) => {
                if self.stack.len() == base + 1 && self.stack[base] == t {
                    return;
                }
                if self.stack.len() > base + 1 && *self.stack.last().unwrap() == t && r.chance(2, 3) {
                    // save the top in a local, drop the rest, restore
                    let cands: Vec<u32> = (0..self.locals.len() as u32).filter(|i| self.locals[*i as usize] == t && *i != self.counter).collect();
                    if !cands.is_empty() {
                        let l = *r.pick(&cands);
                        out.push(Instr::LocalSet(l));
                        self.stack.pop();
                        while self.stack.len() > base {
                            out.push(Instr::Op(OP_DROP));
                            self.stack.pop();
                        }
                        out.push(Instr::LocalGet(l));
                        self.stack.push(t);
                        return;
                    }
                }
                while self.stack.len() > base {
                    out.push(Instr::Op(OP_DROP));
                    self.stack.pop();
                }
                self.push_val(r, t, out);
            }
        }
    }

    /// Branch targets whose label type matches the value available on top of
    /// the stack (after `skip` elements have been consumed from the top).
    fn br_targets(&self, skip: usize) -> Vec<u32> {
        let mut v = vec![];
        for (i, l) in self.labels.iter().rev().enumerate() {
            let lt = if l.is_loop { None } else { l.ty };
            match lt {
                None => v.push(i as u32),
                Some(t) => {
                    if self.top(skip) == Some(t) {
                        v.push(i as u32)
                    }
                }
            }
        }
        v
    }

    fn is_loop(&self, l: u32) -> bool { self.labels[self.labels.len() - 1 - l as usize].is_loop }

    /// emit the guard that makes back-edges terminate: decrements the counter
    /// and leaves through `return` when it is exhausted.
    fn loop_guard(&mut self, r: &mut Rng, out: &mut Vec<Instr>) {
        let c = self.counter;
        let mut exit = vec![];
        if let Some(t) = self.ret {
            match t {
                Ty::I32 => exit.push(Instr::Const32(r.i32v())),
                Ty::I64 => exit.push(Instr::Const64(r.i64v())),
            }
        }
        exit.push(Instr::Op(OP_RETURN));
        out.extend([
            Instr::LocalGet(c),
            Instr::Const32(1),
            Instr::Op(0x6b),
            Instr::LocalTee(c),
            Instr::Const32(0),
            Instr::Op(0x4c), // le_s
            Instr::If(None, exit, None),
        ]);
    }

    /// Generate the body of a block-like construct. Returns the instructions.
    fn block_body(&mut self, r: &mut Rng, is_loop: bool, ty: Option<Ty>, depth: u32) -> Vec<Instr> {
        let base = self.stack.len();
        self.labels.push(Label { is_loop, ty, base });
        let mut out = vec![];
        let n = 1 + r.below(self.cfg.max_instrs);
        let mut reachable = true;
        for _ in 0..n {
            if self.budget <= 0 {
                break;
            }
            self.budget -= 1;
            if !self.one(r, &mut out, depth) {
                reachable = false;
                break;
            }
        }
        if reachable {
            self.fixup(r, ty, &mut out);
        } else {
            // dead code: stack is polymorphic. Emit a little typed junk.
            self.stack.truncate(base);
            if r.chance(1, 2) {
                match r.below(5) {
                    0 => out.push(Instr::Op(OP_DROP)),
                    1 => {
                        out.push(Instr::Op(0x6a));
                        self.stack.push(Ty::I32)
                    }
                    2 => {
                        out.push(Instr::Op(OP_SELECT));
                        out.push(Instr::Op(OP_DROP));
                    }
                    3 => {
                        out.push(Instr::Const64(5));
                        self.stack.push(Ty::I64)
                    }
                    _ => {
                        out.push(Instr::LocalGet(0.min(self.locals.len() as u32 - 1)));
                        self.stack.push(self.locals[0]);
                    }
                }
                if r.chance(1, 2) {
                    self.fixup(r, ty, &mut out);
                } else {
                    // leave fewer values than needed: fine in unreachable code
                    self.fixup(r, None, &mut out);
                }
            }
            self.stack.truncate(base);
            if let Some(t) = ty {
                self.stack.push(t);
            }
        }
        self.labels.pop();
        debug_assert_eq!(self.stack.len(), base + ty.is_some() as usize);
        out
    }

    /// Emit one construct. Returns false if the rest of the block is unreachable.
    fn one(&mut self, r: &mut Rng, out: &mut Vec<Instr>, depth: u32) -> bool {
        if self.avail() > 12 {
            out.push(Instr::Op(OP_DROP));
            self.stack.pop();
            return true;
        }
        let choice = r.below(100);
        match choice {
            0..=11 => {
                let t = rty(r);
                self.push_val(r, t, out)
            }
            12..=19 => {
                // local.get of any local (incl. keeping it on the stack for later)
                let l = r.below(self.locals.len() as u64) as u32;
                if l == self.counter {
                    return true;
                }
                out.push(Instr::LocalGet(l));
                self.stack.push(self.locals[l as usize]);
            }
            20..=31 => {
                // local.set / tee
                if let Some(t) = self.top(0) {
                    let cands: Vec<u32> = (0..self.locals.len() as u32).filter(|i| self.locals[*i as usize] == t && *i != self.counter).collect();
                    if !cands.is_empty() {
                        let l = *r.pick(&cands);
                        if r.chance(1, 2) {
                            out.push(Instr::LocalSet(l));
                            self.stack.pop();
                        } else {
                            out.push(Instr::LocalTee(l));
                        }
                    }
                }
            }
            32..=45 => {
                // numeric
                match (self.top(0), self.top(1)) {
                    (Some(Ty::I32), Some(Ty::I32)) if r.chance(3, 4) => {
                        let op = if r.chance(1, 4) { 0x46 + r.below(10) as u8 } else { 0x6a + r.below(15) as u8 };
                        out.push(Instr::Op(op));
                        self.stack.pop();
                    }
                    (Some(Ty::I64), Some(Ty::I64)) if r.chance(3, 4) => {
                        if r.chance(1, 4) {
                            out.push(Instr::Op(0x51 + r.below(10) as u8));
                            self.stack.pop();
                            self.stack.pop();
                            self.stack.push(Ty::I32);
                        } else {
                            out.push(Instr::Op(0x7c + r.below(15) as u8));
                            self.stack.pop();
                        }
                    }
                    (Some(Ty::I32), _) => {
                        let mut ops = I32_UN.to_vec();
                        if self.cfg.sign_ext {
                            ops.extend_from_slice(I32_UN_SX)
                        }
                        ops.push(0xac);
                        ops.push(0xad);
                        let op = *r.pick(&ops);
                        out.push(Instr::Op(op));
                        if op == 0xac || op == 0xad {
                            self.stack.pop();
                            self.stack.push(Ty::I64);
                        }
                    }
                    (Some(Ty::I64), _) => {
                        let mut ops = I64_UN.to_vec();
                        if self.cfg.sign_ext {
                            ops.extend_from_slice(I64_UN_SX)
                        }
                        ops.push(0xa7);
                        ops.push(0x50);
                        let op = *r.pick(&ops);
                        out.push(Instr::Op(op));
                        if op == 0xa7 || op == 0x50 {
                            self.stack.pop();
                            self.stack.push(Ty::I32);
                        }
                    }
                    _ => {}
                }
            }
            46..=49 => {
                // globals
                if !self.m.globals.is_empty() {
                    let g = r.below(self.m.globals.len() as u64) as u32;
                    let gl = &self.m.globals[g as usize];
                    if gl.mutable && self.top(0) == Some(gl.ty) && r.chance(1, 2) {
                        out.push(Instr::GlobalSet(g));
                        self.stack.pop();
                    } else {
                        out.push(Instr::GlobalGet(g));
                        self.stack.push(gl.ty);
                    }
                }
            }
            50..=57 => {
                // memory
                if self.m.memory.is_some() {
                    let mut off = if r.chance(1, 6) { r.next() as u32 } else { r.below(70000) as u32 };
                    // accesses whose effective address straddles the end of the (initial) memory:
                    // base + offset = size - k for k in 0..=9, so every access width sees both
                    // its last in-bounds and its first out-of-bounds address
                    let edge: Option<i32> = if r.chance(1, 5) {
                        let size = self.m.memory.map(|(min, _)| min as u64 * 65536).unwrap_or(0);
                        let ea = size.saturating_sub(r.below(10));
                        off = if r.chance(1, 2) { r.below(ea.min(70000) + 1) as u32 } else { 0 };
                        Some((ea - off as u64) as u32 as i32)
                    } else {
                        None
                    };
                    match (self.top(0), self.top(1)) {
                        (Some(v), Some(Ty::I32)) if r.chance(1, 2) => {
                            let ops: &[(u8, u32)] = match v {
                                Ty::I32 => &[(0x36, 2), (0x3a, 0), (0x3b, 1)],
                                Ty::I64 => &[(0x37, 3), (0x3c, 0), (0x3d, 1), (0x3e, 2)],
                            };
                            let (op, al) = *r.pick(ops);
                            if let Some(base) = edge {
                                out.push(Instr::Op(OP_DROP));
                                out.push(Instr::Op(OP_DROP));
                                out.push(Instr::Const32(base));
                                out.push(match v {
                                    Ty::I32 => Instr::Const32(r.i32v()),
                                    Ty::I64 => Instr::Const64(r.i64v()),
                                });
                            }
                            out.push(Instr::Mem(op, r.below(al as u64 + 1) as u32, off));
                            self.stack.pop();
                            self.stack.pop();
                        }
                        (Some(Ty::I32), _) => {
                            if r.chance(1, 10) {
                                if r.chance(1, 2) {
                                    // small growths that succeed, and growth around the chain's 512-page cap and the declared maximum
                                    out.push(Instr::Op(OP_DROP));
                                    out.push(Instr::Const32(*r.pick(&[0, 1, 1, 1, 2, 2, 3, 509, 510, 511, 512, 513, 600, 65535, 65536])));
                                }
                                out.push(Instr::MemGrow);
                            } else {
                                let ops: &[(u8, u32, Ty)] = &[
                                    (0x28, 2, Ty::I32),
                                    (0x29, 3, Ty::I64),
                                    (0x2c, 0, Ty::I32),
                                    (0x2d, 0, Ty::I32),
                                    (0x2e, 1, Ty::I32),
                                    (0x2f, 1, Ty::I32),
                                    (0x30, 0, Ty::I64),
                                    (0x31, 0, Ty::I64),
                                    (0x32, 1, Ty::I64),
                                    (0x33, 1, Ty::I64),
                                    (0x34, 2, Ty::I64),
                                    (0x35, 2, Ty::I64),
                                ];
                                let (op, al, t) = *r.pick(ops);
                                if let Some(base) = edge {
                                    out.push(Instr::Op(OP_DROP));
                                    out.push(Instr::Const32(base));
                                }
                                out.push(Instr::Mem(op, r.below(al as u64 + 1) as u32, off));
                                self.stack.pop();
                                self.stack.push(t);
                            }
                        }
                        _ => {
                            out.push(Instr::MemSize);
                            self.stack.push(Ty::I32);
                        }
                    }
                }
            }
            58..=61 => {
                if self.top(0).is_some() {
                    if self.top(0) == Some(Ty::I32) && self.top(1).is_some() && self.top(1) == self.top(2) && r.chance(1, 2) {
                        out.push(Instr::Op(OP_SELECT));
                        self.stack.pop();
                        self.stack.pop();
                    } else {
                        out.push(Instr::Op(OP_DROP));
                        self.stack.pop();
                    }
                }
            }
            62..=75 if depth < self.cfg.max_depth => {
                // structured control
                let ty = if r.chance(1, 2) { Some(rty(r)) } else { None };
                let kind = if self.cfg.loop_heavy && r.chance(1, 2) { 1 } else { r.below(3) };
                match kind {
                    0 => {
                        let b = self.block_body(r, false, ty, depth + 1);
                        out.push(Instr::Block(ty, b));
                    }
                    1 => {
                        // sometimes: a local's value stays on the stack across a loop that
                        // overwrites the local in every iteration and iterates more than once
                        let cands: Vec<u32> = (0..self.locals.len() as u32).filter(|i| *i != self.counter).collect();
                        let special = if !cands.is_empty() && r.chance(1, 4) { Some(*r.pick(&cands)) } else { None };
                        if let Some(l) = special {
                            out.push(Instr::LocalGet(l));
                            self.stack.push(self.locals[l as usize]);
                        }
                        let mut b = self.block_body(r, true, ty, depth + 1);
                        if let Some(l) = special {
                            let set = match self.locals[l as usize] {
                                Ty::I32 => Instr::Const32(r.i32v()),
                                Ty::I64 => Instr::Const64(r.i64v()),
                            };
                            let mut nb = vec![set, if r.chance(1, 2) { Instr::LocalSet(l) } else { Instr::LocalTee(l) }];
                            if matches!(nb[1], Instr::LocalTee(_)) {
                                nb.push(Instr::Op(OP_DROP));
                            }
                            nb.append(&mut b);
                            // counter-guarded back-edge (the loop label takes no values)
                            let c = self.counter;
                            nb.extend([Instr::LocalGet(c), Instr::Const32(1), Instr::Op(0x6b), Instr::LocalTee(c), Instr::Const32(0), Instr::Op(0x4a), Instr::BrIf(0)]);
                            b = nb;
                        }
                        out.push(Instr::Loop(ty, b));
                    }
                    _ => {
                        if self.top(0) != Some(Ty::I32) {
                            self.push_val(r, Ty::I32, out);
                        }
                        self.stack.pop();
                        if ty.is_none() && r.chance(1, 2) {
                            let a = self.block_body(r, false, None, depth + 1);
                            out.push(Instr::If(None, a, None));
                        } else {
                            let a = self.block_body(r, false, ty, depth + 1);
                            if ty.is_some() {
                                self.stack.pop();
                            }
                            let b = self.block_body(r, false, ty, depth + 1);
                            out.push(Instr::If(ty, a, Some(b)));
                        }
                    }
                }
            }
            76..=83 => {
                // br_if
                if self.top(0) != Some(Ty::I32) {
                    self.push_val(r, Ty::I32, out);
                }
                let ts = self.br_targets(1);
                if ts.is_empty() {
                    return true;
                }
                let l = *r.pick(&ts);
                if self.is_loop(l) {
                    let c = self.counter;
                    // conditional back-edge that also consumes the counter
                    self.stack.pop();
                    out.push(Instr::Op(OP_DROP));
                    out.extend([Instr::LocalGet(c), Instr::Const32(1), Instr::Op(0x6b), Instr::LocalTee(c), Instr::Const32(0), Instr::Op(0x4a)]);
                    out.push(Instr::BrIf(l));
                } else {
                    self.stack.pop();
                    out.push(Instr::BrIf(l));
                }
            }
            84..=87 => {
                // br
                let ts = self.br_targets(0);
                if ts.is_empty() {
                    return true;
                }
                let l = *r.pick(&ts);
                if self.is_loop(l) {
                    self.loop_guard(r, out);
                }
                out.push(Instr::Br(l));
                return false;
            }
            88..=89 => {
                // br_table
                if self.top(0) != Some(Ty::I32) {
                    self.push_val(r, Ty::I32, out);
                }
                let ts = self.br_targets(1);
                if ts.is_empty() {
                    return true;
                }
                let d = *r.pick(&ts);
                let want = {
                    let l = self.labels[self.labels.len() - 1 - d as usize];
                    if l.is_loop {
                        None
                    } else {
                        l.ty
                    }
                };
                let same: Vec<u32> = ts
                    .iter()
                    .copied()
                    .filter(|t| {
                        let l = self.labels[self.labels.len() - 1 - *t as usize];
                        (if l.is_loop { None } else { l.ty }) == want
                    })
                    .collect();
                let n = r.below(5);
                let ls: Vec<u32> = (0..n).map(|_| *r.pick(&same)).collect();
                if ls.iter().chain(std::iter::once(&d)).any(|l| self.is_loop(*l)) {
                    // guard needs the selector out of the way
                    let c = self.counter;
                    let _ = c;
                    // stash selector: simply drop and use a constant selector after the guard
                    out.push(Instr::Op(OP_DROP));
                    self.stack.pop();
                    self.loop_guard(r, out);
                    out.push(Instr::Const32(r.below(6) as i32));
                }
                out.push(Instr::BrTable(ls, d));
                return false;
            }
            90 => {
                if let Some(t) = self.ret {
                    if self.top(0) != Some(t) {
                        self.push_val(r, t, out);
                    }
                }
                out.push(Instr::Op(OP_RETURN));
                return false;
            }
            91 => {
                if r.chance(1, 4) {
                    out.push(Instr::Op(OP_UNREACHABLE));
                    return false;
                } else {
                    out.push(Instr::Op(OP_NOP));
                }
            }
            92..=97 => {
                // direct call to an import or a later function
                let ni = self.m.imports.len() as u32;
                let nf = self.fn_tys.len() as u32;
                let mut cands: Vec<u32> = (0..ni).collect();
                cands.extend(self.self_idx + 1..nf);
                if cands.is_empty() {
                    return true;
                }
                let f = *r.pick(&cands);
                let ty = self.m.types[self.fn_tys[f as usize] as usize].clone();
                self.args_for(r, &ty, out);
                out.push(Instr::Call(f));
                if let Some(t) = ty.result {
                    self.stack.push(t);
                }
            }
            _ => {
                if let Some(tsize) = self.m.table {
                    // table slots holding an import or a later function (no cycles)
                    let mut slots: Vec<(u32, u32)> = vec![];
                    for (off, fs) in &self.m.elems {
                        for (i, f) in fs.iter().enumerate() {
                            if *f < self.m.imports.len() as u32 || *f > self.self_idx {
                                slots.push((*off + i as u32, *f));
                            }
                        }
                    }
                    let deliberate = if !slots.is_empty() && r.chance(1, 2) { Some(*r.pick(&slots)) } else { None };
                    let tyi = match deliberate {
                        // a call that is meant to succeed: use the callee's own type
                        Some((_, f)) => self.fn_tys[f as usize],
                        None => r.below(self.m.types.len() as u64) as u32,
                    };
                    let ty = self.m.types[tyi as usize].clone();
                    self.args_for(r, &ty, out);
                    let idx = match deliberate {
                        Some((slot, _)) => slot as i32,
                        None => {
                            if r.chance(1, 8) {
                                r.i32v()
                            } else {
                                r.below(tsize as u64 + 1) as i32
                            }
                        }
                    };
                    out.push(Instr::Const32(idx));
                    out.push(Instr::CallIndirect(tyi));
                    if let Some(t) = ty.result {
                        self.stack.push(t);
                    }
                }
            }
        }
        true
    }

    fn args_for(&mut self, r: &mut Rng, ty: &FuncTy, out: &mut Vec<Instr>) {
        // reuse stack values when they happen to match, otherwise produce them
        let n = ty.params.len();
        let matches = n <= self.avail() && (0..n).all(|i| self.top(n - 1 - i) == Some(ty.params[i]));
        if matches && r.chance(2, 3) {
            for _ in 0..n {
                self.stack.pop();
            }
        } else {
            for p in &ty.params {
                self.push_val(r, *p, out);
            }
            for _ in 0..n {
                self.stack.pop();
            }
        }
    }
}

pub fn gen_module(r: &mut Rng, cfg: &Cfg) -> Module {
    let mut m = Module::default();
    // types
    let nty = 2 + r.below(4);
    for _ in 0..nty {
        // mostly 0-3 parameters; sometimes around the multiples of ten, where the V1 schedule's
        // per-ten rounding (type checks, invocation) changes value
        let np = if r.chance(1, 8) { *r.pick(&[8u64, 9, 10, 11, 19, 20, 21, 29, 30, 31]) } else { r.below(4) };
        m.types.push(FuncTy { params: (0..np).map(|_| rty(r)).collect(), result: if r.chance(2, 3) { Some(rty(r)) } else { None } });
    }
    // fixed import types
    m.types.push(FuncTy { params: vec![Ty::I32], result: Some(Ty::I32) });
    let t_h0 = m.types.len() as u32 - 1;
    m.types.push(FuncTy { params: vec![Ty::I64, Ty::I32], result: None });
    let t_h1 = m.types.len() as u32 - 1;
    if cfg.force_imports || r.chance(2, 3) {
        m.imports.push(Import { module: "env".into(), name: "h0".into(), ty: t_h0 });
        if cfg.force_imports || r.chance(1, 2) {
            m.imports.push(Import { module: "env".into(), name: "h1".into(), ty: t_h1 });
        }
    }
    if !cfg.memless && r.chance(4, 5) {
        // sometimes a memory with zero initial pages (and then no data segments): it exists, has size 0 and can grow
        let min = if r.chance(1, 8) { 0 } else { 1 + r.below(2) as u32 };
        let max = match r.below(12) {
            0..=3 => None,
            // a declared maximum beyond the chain's cap of 512 pages
            4 => Some(*r.pick(&[512u32, 513, 600, 1000, 65535, 65536])),
            _ => Some(min + r.below(3) as u32),
        };
        m.memory = Some((min, max));
        for _ in 0..(if min == 0 { 0 } else { r.below(3) }) {
            let len = r.below(40) as usize;
            let off = r.below(65536 - 64) as u32;
            m.data.push((off, (0..len).map(|_| r.next() as u8).collect()));
        }
        // later segments overwrite earlier ones: overlapping segments, also all-zero ones
        if !m.data.is_empty() && r.chance(1, 3) {
            let (off, len) = {
                let d = r.pick(&m.data);
                (d.0, d.1.len())
            };
            let shift = r.below(len as u64 + 1) as u32;
            let n = (r.below(len as u64 + 8) as usize).min(65536 - (off + shift) as usize);
            let bytes: Vec<u8> = match r.below(3) {
                0 => vec![0; n],
                1 => (0..n).map(|i| if i % 2 == 0 { 0 } else { r.next() as u8 }).collect(),
                _ => (0..n).map(|_| r.next() as u8).collect(),
            };
            m.data.push((off + shift, bytes));
        }
    }
    for _ in 0..r.below(4) {
        let ty = rty(r);
        m.globals.push(Global { ty, mutable: r.chance(2, 3), init: if ty == Ty::I32 { r.i32v() as i64 } else { r.i64v() } });
    }
    let nf = 1 + r.below(cfg.max_funcs) as u32;
    let ni = m.imports.len() as u32;
    let mut fn_tys: Vec<u32> = m.imports.iter().map(|i| i.ty).collect();
    for _ in 0..nf {
        fn_tys.push(r.below(nty) as u32);
    }
    if r.chance(3, 4) {
        let tsize = 1 + r.below(6) as u32;
        m.table = Some(tsize);
        for _ in 0..r.below(3) {
            let off = r.below(tsize as u64) as u32;
            let n = r.below((tsize - off) as u64 + 1) as u32;
            m.elems.push((off, (0..n).map(|_| r.below((ni + nf) as u64) as u32).collect()));
        }
        if cfg.force_imports && ni > 0 {
            // imports reachable through the table (later segments overwrite earlier ones)
            let off = r.below(tsize as u64) as u32;
            let n = (1 + r.below(ni as u64) as u32).min(tsize - off);
            m.elems.push((off, (0..n).map(|i| i % ni).collect()));
        }
    }
    // NB: indirect calls may target any function, so recursion through the
    // table is possible; it is bounded by the reference step budget.
    for i in 0..nf {
        let tyi = fn_tys[(ni + i) as usize];
        let fty = m.types[tyi as usize].clone();
        let mut locals = fty.params.clone();
        let nl = r.below(5);
        let mut decl = vec![];
        for _ in 0..nl {
            let t = rty(r);
            decl.push(t);
            locals.push(t);
        }
        decl.push(Ty::I32);
        locals.push(Ty::I32);
        let counter = locals.len() as u32 - 1;
        let mut ctx = FnCtx { m: &m, fn_tys: &fn_tys, self_idx: ni + i, locals, counter, stack: vec![], labels: vec![], ret: fty.result, cfg, budget: cfg.fn_budget };
        let mut body = vec![Instr::Const32(1 + r.below(cfg.max_iters) as i32), Instr::LocalSet(counter)];
        body.extend(ctx.block_body(r, false, fty.result, 0));
        m.funcs.push(Func { ty: tyi, locals: decl, body });
    }
    // wrappers that dump the globals into memory after the call
    let nglob = m.globals.len();
    for i in 0..nf {
        let tyi = fn_tys[(ni + i) as usize];
        let fty = m.types[tyi as usize].clone();
        let mut body = vec![];
        for (p, _) in fty.params.iter().enumerate() {
            body.push(Instr::LocalGet(p as u32));
        }
        body.push(Instr::Call(ni + i));
        if m.memory.is_some() {
            for g in 0..nglob {
                body.push(Instr::Const32(65536 - 8 * (g as i32 + 1)));
                body.push(Instr::GlobalGet(g as u32));
                match m.globals[g].ty {
                    Ty::I32 => body.push(Instr::Mem(0x36, 0, 0)),
                    Ty::I64 => body.push(Instr::Mem(0x37, 0, 0)),
                }
            }
        }
        m.funcs.push(Func { ty: tyi, locals: vec![], body });
        m.exports.push((format!("w{}", i), ni + nf + i));
    }
    m
}
