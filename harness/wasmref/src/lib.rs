//! Harness-side WebAssembly: AST + binary encoder, stack-directed generator,
//! reference interpreter with transcribed cost schedules, independent binary
//! decoder and validator, mutators and shrinker. Shares no code with the
//! engine under test.
pub mod ast;
pub mod gen;
pub mod refint;
pub mod show;
pub mod shrink;
pub mod mutate;
pub mod valid;
