//! Mutators for C09: byte, LEB128, instruction and section level, plus
//! boundary modules whose validity is known by construction.
use crate::ast::*;
use vmon_core::Rng;

// ------------------------------------------------------------------ bytes
pub fn mutate_bytes(r: &mut Rng, b: &mut Vec<u8>) -> &'static str {
    if b.is_empty() {
        b.push(r.next() as u8);
        return "byte.insert";
    }
    match r.below(9) {
        0 => {
            let i = r.below(b.len() as u64) as usize;
            b[i] ^= 1 << r.below(8);
            "byte.flip"
        }
        8 => {
            // replace one byte by a huge LEB128 (length-field inflation)
            let i = r.below(b.len() as u64) as usize;
            let big: &[u8] = match r.below(4) {
                0 => &[0xff, 0xff, 0xff, 0xff, 0x0f],
                1 => &[0x80, 0x80, 0x80, 0x80, 0x08],
                2 => &[0xff, 0xff, 0xff, 0x07],
                _ => &[0xff, 0xff, 0x03],
            };
            b.splice(i..i + 1, big.iter().copied());
            "byte.inflate_leb"
        }
        1 => {
            let i = r.below(b.len() as u64) as usize;
            b[i] = *r.pick(&[0x00, 0x7f, 0x80, 0xff, 0x0b, 0x40, 0x7e, 0x7d, 0x05]);
            "byte.replace_special"
        }
        2 => {
            let i = r.below(b.len() as u64 + 1) as usize;
            b.insert(i, r.next() as u8);
            "byte.insert"
        }
        3 => {
            let i = r.below(b.len() as u64) as usize;
            b.remove(i);
            "byte.delete"
        }
        4 => {
            let n = r.below(b.len() as u64) as usize;
            b.truncate(n);
            "byte.truncate"
        }
        5 => {
            let i = r.below(b.len() as u64) as usize;
            let n = (1 + r.below(8) as usize).min(b.len() - i);
            let chunk = b[i..i + n].to_vec();
            let j = r.below(b.len() as u64 + 1) as usize;
            for (k, x) in chunk.into_iter().enumerate() {
                b.insert(j + k, x);
            }
            "byte.duplicate_range"
        }
        6 => {
            let n = 1 + r.below(6);
            for _ in 0..n {
                b.push(r.next() as u8);
            }
            "byte.append"
        }
        _ => {
            let i = r.below(b.len() as u64) as usize;
            b[i] = r.next() as u8;
            "byte.replace"
        }
    }
}

// ------------------------------------------------------------------ LEB128
/// Re-encode the module with one LEB128 value padded to a non-minimal length.
pub fn mutate_leb(r: &mut Rng, m: &Module) -> (Vec<u8>, &'static str) {
    let (_, n) = m.encode_padded(usize::MAX, 0);
    let which = r.below(n.max(1) as u64) as usize;
    if r.chance(1, 4) {
        // out-of-range encoding: bits beyond the field width set in the last byte (malformed)
        let (b, _) = m.encode_padded(which, OVERFLOW + r.below(7) as usize);
        return (b, "leb.overflow");
    }
    let pad = match r.below(6) {
        0 | 1 => 1,
        2 => 2,
        3 => 3,
        4 => 4,
        _ => 5 + r.below(6) as usize,
    };
    let (b, _) = m.encode_padded(which, pad);
    (b, "leb.pad")
}

// ------------------------------------------------------------------ instructions
fn count(is: &[Instr]) -> usize {
    is.iter()
        .map(|i| {
            1 + match i {
                Instr::Block(_, b) | Instr::Loop(_, b) => count(b),
                Instr::If(_, a, b) => count(a) + b.as_ref().map(|b| count(b)).unwrap_or(0),
                _ => 0,
            }
        })
        .sum()
}

/// apply `f` to the instruction list that contains the n-th instruction (preorder) and its index
fn with_nth(is: &mut Vec<Instr>, n: &mut usize, f: &mut dyn FnMut(&mut Vec<Instr>, usize)) -> bool {
    let mut i = 0;
    while i < is.len() {
        if *n == 0 {
            f(is, i);
            return true;
        }
        *n -= 1;
        let done = match &mut is[i] {
            Instr::Block(_, b) | Instr::Loop(_, b) => with_nth(b, n, f),
            Instr::If(_, a, b) => with_nth(a, n, f) || b.as_mut().map(|b| with_nth(b, n, f)).unwrap_or(false),
            _ => false,
        };
        if done {
            return true;
        }
        i += 1;
    }
    false
}

fn random_instr(r: &mut Rng) -> Instr {
    match r.below(16) {
        0 => Instr::Const32(r.i32v()),
        1 => Instr::Const64(r.i64v()),
        2 => Instr::LocalGet(r.below(6) as u32),
        3 => Instr::LocalSet(r.below(6) as u32),
        4 => Instr::Op(OP_DROP),
        5 => Instr::Op(0x6a),
        6 => Instr::Op(0x7c),
        7 => Instr::Op(*r.pick(&[0x92u8, 0xa0, 0x8b, 0x99, 0xb2, 0xbc])), // floating point
        8 => Instr::Br(r.below(4) as u32),
        9 => Instr::BrIf(r.below(4) as u32),
        10 => Instr::Op(OP_RETURN),
        11 => Instr::Op(OP_UNREACHABLE),
        12 => Instr::Call(r.below(8) as u32),
        13 => Instr::GlobalGet(r.below(4) as u32),
        14 => Instr::Op(*r.pick(&[0xc0u8, 0xc2, 0xc4])),
        _ => Instr::Op(OP_SELECT),
    }
}

pub fn mutate_ast(r: &mut Rng, m: &mut Module) -> &'static str {
    if m.funcs.is_empty() {
        return "ast.none";
    }
    let f = r.below(m.funcs.len() as u64) as usize;
    let total = count(&m.funcs[f].body);
    if total == 0 {
        m.funcs[f].body.push(random_instr(r));
        return "ast.insert";
    }
    let mut n = r.below(total as u64) as usize;
    let kind = r.below(9);
    let mut label = "ast.none";
    let newi = random_instr(r);
    let delta = if r.chance(1, 2) { 1i64 } else { -1 };
    let big = r.chance(1, 4);
    let ty_flip = r.chance(1, 2);
    let body = &mut m.funcs[f].body;
    with_nth(body, &mut n, &mut |is: &mut Vec<Instr>, i: usize| match kind {
        0 => {
            is.remove(i);
            label = "ast.delete";
        }
        1 => {
            let c = is[i].clone();
            is.insert(i, c);
            label = "ast.duplicate";
        }
        2 => {
            is.insert(i, newi.clone());
            label = "ast.insert";
        }
        3 => {
            is[i] = newi.clone();
            label = "ast.replace";
        }
        4 => {
            if i + 1 < is.len() {
                is.swap(i, i + 1);
                label = "ast.swap";
            }
        }
        5 => {
            // perturb an immediate
            let bump = |x: &mut u32| {
                *x = if big { 1_000_000 } else { (*x as i64 + delta).max(0) as u32 };
            };
            match &mut is[i] {
                Instr::LocalGet(x) | Instr::LocalSet(x) | Instr::LocalTee(x) | Instr::GlobalGet(x) | Instr::GlobalSet(x) | Instr::Br(x) | Instr::BrIf(x) | Instr::Call(x) | Instr::CallIndirect(x) => {
                    bump(x);
                    label = "ast.index";
                }
                Instr::BrTable(ls, d) => {
                    if ls.is_empty() || ty_flip {
                        bump(d)
                    } else {
                        bump(&mut ls[0])
                    }
                    label = "ast.index";
                }
                Instr::Mem(_, a, _) => {
                    *a += 1 + (big as u32) * 3;
                    label = "ast.align";
                }
                _ => {}
            }
        }
        6 => {
            // retype: change the block type or the width of an operation
            match &mut is[i] {
                Instr::Block(t, _) | Instr::Loop(t, _) | Instr::If(t, _, _) => {
                    *t = match *t {
                        None => Some(Ty::I32),
                        Some(Ty::I32) => Some(Ty::I64),
                        Some(Ty::I64) => None,
                    };
                    label = "ast.blocktype";
                }
                Instr::Const32(c) => {
                    is[i] = Instr::Const64(*c as i64);
                    label = "ast.retype";
                }
                Instr::Const64(c) => {
                    is[i] = Instr::Const32(*c as i32);
                    label = "ast.retype";
                }
                Instr::Op(b) if (0x6a..=0x78).contains(b) => {
                    *b += 0x12;
                    label = "ast.retype";
                }
                Instr::Op(b) if (0x7c..=0x8a).contains(b) => {
                    *b -= 0x12;
                    label = "ast.retype";
                }
                _ => {}
            }
        }
        7 => {
            // drop the else branch / add an empty one
            if let Instr::If(_, _, e) = &mut is[i] {
                *e = if e.is_some() { None } else { Some(vec![]) };
                label = "ast.else";
            }
        }
        _ => {
            // wrap in a block
            let c = is[i].clone();
            is[i] = Instr::Block(None, vec![c]);
            label = "ast.wrap";
        }
    });
    label
}

// ------------------------------------------------------------------ sections
/// Split an encoded module into (id, payload) sections; None if the bytes are not of that shape.
pub fn split_sections(b: &[u8]) -> Option<Vec<(u8, Vec<u8>)>> {
    if b.len() < 8 {
        return None;
    }
    let mut p = 8;
    let mut out = vec![];
    while p < b.len() {
        let id = b[p];
        p += 1;
        let mut n: u64 = 0;
        let mut shift = 0;
        loop {
            let x = *b.get(p)?;
            p += 1;
            n |= ((x & 0x7f) as u64) << shift;
            shift += 7;
            if x & 0x80 == 0 {
                break;
            }
            if shift > 35 {
                return None;
            }
        }
        let end = p.checked_add(n as usize)?;
        if end > b.len() {
            return None;
        }
        out.push((id, b[p..end].to_vec()));
        p = end;
    }
    Some(out)
}

pub fn join_sections(secs: &[(u8, Vec<u8>)]) -> Vec<u8> {
    let mut out = vec![0x00, 0x61, 0x73, 0x6d, 1, 0, 0, 0];
    for (id, body) in secs {
        out.push(*id);
        leb_u_raw(&mut out, body.len() as u64);
        out.extend_from_slice(body);
    }
    out
}

fn custom_section(r: &mut Rng) -> (Vec<u8>, &'static str) {
    let mut body = vec![];
    let (name, label): (Vec<u8>, &'static str) = match r.below(6) {
        0 => (b"name".to_vec(), "section.custom_valid"),
        1 => (vec![], "section.custom_empty_name"),
        2 => (vec![0xc3, 0xa9], "section.custom_non_ascii_name"),
        3 => (vec![0xff, 0xfe], "section.custom_invalid_utf8_name"),
        4 => (vec![b'a'; 512], "section.custom_name_512"),
        _ => (vec![b'a'; 513], "section.custom_name_513"),
    };
    leb_u_raw(&mut body, name.len() as u64);
    body.extend_from_slice(&name);
    let extra = r.below(6) as usize;
    body.extend(r.bytes(extra));
    (body, label)
}

pub fn mutate_sections(r: &mut Rng, bytes: &[u8]) -> (Vec<u8>, &'static str) {
    let mut secs = match split_sections(bytes) {
        Some(s) => s,
        None => return (bytes.to_vec(), "section.none"),
    };
    let n = secs.len();
    match r.below(11) {
        0 if n >= 2 => {
            let i = r.below(n as u64 - 1) as usize;
            secs.swap(i, i + 1);
            (join_sections(&secs), "section.swap")
        }
        1 if n >= 1 => {
            let i = r.below(n as u64) as usize;
            let c = secs[i].clone();
            secs.insert(i, c);
            (join_sections(&secs), "section.duplicate")
        }
        2 if n >= 1 => {
            let i = r.below(n as u64) as usize;
            secs.remove(i);
            (join_sections(&secs), "section.drop")
        }
        3 if n >= 1 => {
            let i = r.below(n as u64) as usize;
            let l = secs[i].1.len();
            secs[i].1.truncate(r.below(l as u64 + 1) as usize);
            (join_sections(&secs), "section.truncate_consistent")
        }
        4 if n >= 1 => {
            // size field inflated / deflated without touching the payload
            let i = r.below(n as u64) as usize;
            let mut out = vec![0x00, 0x61, 0x73, 0x6d, 1, 0, 0, 0];
            for (k, (id, body)) in secs.iter().enumerate() {
                out.push(*id);
                let len = if k == i {
                    match r.below(4) {
                        0 => body.len() as u64 + 1,
                        1 => (body.len() as u64).saturating_sub(1),
                        2 => 0xffff_ffff,
                        _ => body.len() as u64 + r.below(1000),
                    }
                } else {
                    body.len() as u64
                };
                leb_u_raw(&mut out, len);
                out.extend_from_slice(body);
            }
            (out, "section.size_field")
        }
        5 | 6 => {
            let (body, label) = custom_section(r);
            let i = r.below(n as u64 + 1) as usize;
            secs.insert(i, (0, body));
            (join_sections(&secs), label)
        }
        7 => {
            // start section in its proper place
            let pos = secs.iter().position(|(id, _)| *id > 8 && *id != 0).unwrap_or(n);
            secs.insert(pos, (8, vec![0]));
            (join_sections(&secs), "section.start")
        }
        8 => {
            // second memory or table
            let which = if r.chance(1, 2) { 5u8 } else { 4u8 };
            let body = if which == 5 { vec![2, 0, 1, 0, 1] } else { vec![2, 0x70, 0, 1, 0x70, 0, 1] };
            secs.retain(|(id, _)| *id != which);
            let pos = secs.iter().position(|(id, _)| *id > which && *id != 0).unwrap_or(secs.len());
            secs.insert(pos, (which, body));
            (join_sections(&secs), "section.two_memories_or_tables")
        }
        9 => {
            secs.push((r.range(12, 20) as u8, vec![0]));
            (join_sections(&secs), "section.unknown_id")
        }
        _ => {
            let mut out = join_sections(&secs);
            let i = 4 + r.below(4) as usize;
            out[i] ^= 1 << r.below(8);
            (out, "section.header")
        }
    }
}

// ------------------------------------------------------------------ boundary modules
fn base_module() -> Module {
    let mut m = Module::default();
    m.types.push(FuncTy { params: vec![], result: None });
    m.funcs.push(Func { ty: 0, locals: vec![], body: vec![] });
    m.exports.push(("f".into(), 0));
    m
}

/// Modules that sit exactly on, or one step beyond, a documented limit.
/// Returns (bytes, expected validity, label).
pub fn boundary_module(r: &mut Rng, v1: bool) -> (Vec<u8>, bool, &'static str) {
    let mut m = base_module();
    let over = r.chance(1, 2);
    match r.below(17) {
        0 => {
            // locals + stack height
            let total = if over { 1025 } else { 1024 };
            let h = 1 + r.below(40) as usize;
            let l = total - h;
            m.funcs[0].locals = vec![Ty::I64; l];
            let mut body = vec![];
            for _ in 0..h {
                body.push(Instr::Const32(1));
            }
            for _ in 0..h {
                body.push(Instr::Op(OP_DROP));
            }
            m.funcs[0].body = body;
            (m.encode(), !over, "boundary.locals_plus_stack")
        }
        1 => {
            m.funcs[0].locals = vec![Ty::I32; if over { 1025 } else { 1024 }];
            (m.encode(), !over, "boundary.locals")
        }
        2 => {
            let n = if over { 101 } else { 100 };
            m.exports = (0..n).map(|i| (format!("e{}", i), 0)).collect();
            (m.encode(), !over, "boundary.exports")
        }
        3 => {
            let n = if over { 1025 } else { 1024 };
            m.globals = (0..n).map(|_| Global { ty: Ty::I32, mutable: false, init: 0 }).collect();
            (m.encode(), !over, "boundary.globals")
        }
        4 => {
            let n = if over { 4097 } else { 4096 };
            m.funcs[0].body = vec![Instr::Block(None, vec![Instr::Const32(0), Instr::BrTable(vec![0; n], 0)])];
            (m.encode(), !over, "boundary.br_table")
        }
        5 => {
            m.table = Some(if over { 1001 } else { 1000 });
            (m.encode(), !over, "boundary.table_size")
        }
        6 => {
            let min = if over { 33 } else { 32 };
            let max = match r.below(3) {
                0 => None,
                1 => Some(min + r.below(40) as u32),
                _ => Some(*r.pick(&[512u32, 1000, 65536])),
            };
            m.memory = Some((min, max));
            (m.encode(), !over, "boundary.memory_min")
        }
        7 => {
            m.memory = Some((1, Some(if over { 65537 } else { 65536 })));
            (m.encode(), !over, "boundary.memory_max")
        }
        8 => {
            m.types.push(FuncTy { params: vec![Ty::I32], result: Some(Ty::I32) });
            let n = if over { 513 } else { 512 };
            m.imports.push(Import { module: "a".repeat(n), name: "h0".into(), ty: 1 });
            m.exports[0].1 = 1;
            (m.encode(), !over, "boundary.name_length")
        }
        9 => {
            let n = if over { 101 } else { 100 };
            m.exports[0].0 = "x".repeat(n);
            (m.encode(), !over, "boundary.export_name_length")
        }
        10 => {
            m.memory = Some((1, None));
            let len = 16usize;
            let off = 65536 - len as u32 + over as u32;
            m.data.push((off, vec![7; len]));
            (m.encode(), !over, "boundary.data_segment_end")
        }
        11 => {
            m.table = Some(4);
            m.elems.push((2 + over as u32, vec![0, 0]));
            (m.encode(), !over, "boundary.element_segment_end")
        }
        12 => {
            // if with a result and no else
            m.types[0].result = Some(Ty::I32);
            m.funcs[0].body = vec![Instr::Const32(1), Instr::If(Some(Ty::I32), vec![Instr::Const32(2)], if over { None } else { Some(vec![Instr::Const32(3)]) })];
            (m.encode(), !over, "boundary.if_without_else")
        }
        13 => {
            m.exports.push((if over { "f".into() } else { "g".into() }, 0));
            (m.encode(), !over, "boundary.duplicate_export")
        }
        14 => {
            // sign extension only under V1
            m.funcs[0].body = vec![Instr::Const32(5), Instr::Op(0xc0), Instr::Op(OP_DROP)];
            (m.encode(), v1, "boundary.sign_extension")
        }
        15 => {
            // misaligned memarg
            m.memory = Some((1, None));
            m.funcs[0].body = vec![Instr::Const32(0), Instr::Mem(0x28, if over { 3 } else { 2 }, 0), Instr::Op(OP_DROP)];
            (m.encode(), !over, "boundary.alignment")
        }
        _ => {
            // branch depth
            m.funcs[0].body = vec![Instr::Block(None, vec![Instr::Br(if over { 2 } else { 1 })])];
            (m.encode(), !over, "boundary.label_depth")
        }
    }
}

/// global.get in a segment offset: allowed for immutable i32 globals under V0 only.
pub fn global_offset_module(r: &mut Rng, v1: bool) -> (Vec<u8>, bool, &'static str) {
    let mutable = r.chance(1, 3);
    let wrong_ty = r.chance(1, 4);
    let mut m = base_module();
    m.memory = Some((1, None));
    m.globals.push(Global { ty: if wrong_ty { Ty::I64 } else { Ty::I32 }, mutable, init: 8 });
    m.data.push((0, vec![1, 2, 3]));
    let b = m.encode();
    // patch the data segment offset expression `i32.const 0` (41 00 0b) into `global.get 0` (23 00 0b)
    let mut secs = split_sections(&b).unwrap();
    for (id, body) in secs.iter_mut() {
        if *id == 11 {
            // count, memidx, 0x41 0x00 0x0b
            if body.len() > 4 && body[2] == 0x41 {
                body[2] = 0x23;
            }
        }
    }
    (join_sections(&secs), !v1 && !mutable && !wrong_ty, "boundary.global_in_offset")
}
