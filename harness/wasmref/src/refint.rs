//! Reference interpreter: a direct transcription of the Wasm 1.0 execution
//! semantics (integer subset + sign-extension ops) over the harness AST.
use crate::ast::*;

#[derive(Clone, Copy, Debug, PartialEq, Eq)]
pub enum V {
    I32(i32),
    I64(i64),
}
impl V {
    pub fn i32(self) -> i32 {
        match self {
            V::I32(x) => x,
            V::I64(_) => panic!("ref: type confusion (expected i32)"),
        }
    }
    pub fn i64(self) -> i64 {
        match self {
            V::I64(x) => x,
            V::I32(_) => panic!("ref: type confusion (expected i64)"),
        }
    }
    pub fn zero(t: Ty) -> V {
        match t {
            Ty::I32 => V::I32(0),
            Ty::I64 => V::I64(0),
        }
    }
}

#[derive(Clone, Debug, PartialEq, Eq)]
pub enum Trap {
    Unreachable,
    DivZero,
    Overflow,
    MemOob,
    TableOob,
    NullElem,
    SigMismatch,
    Host(String),
    /// Not a trap: the reference ran out of its step budget.
    Fuel,
    /// Not a Wasm trap: host said out of energy
    OutOfEnergy,
    CallDepth,
}

enum Flow {
    Normal,
    Br(u32),
    Return,
}

pub trait RefHost {
    fn call(&mut self, imp: &Import, args: &[V], mem: &mut Vec<u8>) -> Result<Option<V>, Trap>;

    /// Like `call`, but the host also sees (and may add its own charges to) the
    /// energy accumulated so far. At the time of a host call the accumulated
    /// energy includes the cost of the call instruction itself, which is exactly
    /// what a metered artifact has charged when the host is entered (a call
    /// ends a metering segment). Return `Err(Trap::OutOfEnergy)` to stop.
    fn call_with_energy(&mut self, imp: &Import, args: &[V], mem: &mut Vec<u8>, _energy: &mut u64) -> Result<Option<V>, Trap> { self.call(imp, args, mem) }
}

#[derive(Clone, Copy, Debug, PartialEq, Eq)]
pub enum Cost {
    None,
    V0,
    V1,
}

pub struct Machine<'a, H> {
    pub m: &'a Module,
    pub mem: Vec<u8>,
    pub max_pages: u32,
    pub globals: Vec<V>,
    pub table: Vec<Option<u32>>,
    pub host: H,
    pub steps: u64,
    pub max_steps: u64,
    pub depth: u32,
    pub max_depth: u32,
    pub cost: Cost,
    /// sum over executed instructions of the schedule
    pub energy: u64,
    /// memory.grow requests (pages) in order, as the host must see them
    pub grow_requests: Vec<u32>,
    /// memory size in pages just before each of those requests
    pub grow_before: Vec<u32>,
    /// executed-instruction histogram by binary opcode byte
    pub ops: [u64; 256],
    /// branch events: see `BR_*`
    pub br: [u64; 12],
    /// number of host calls made
    pub host_calls: u64,
}

pub const BR_NAMES: [&str; 12] = [
    "br.inner.arity0", "br.inner.arity1", "br.fn.arity0", "br.fn.arity1", "br_if.taken.arity0", "br_if.taken.arity1", "br_if.untaken.arity0", "br_if.untaken.arity1",
    "br_table.arity0", "br_table.arity1", "br_table.default", "loop.backedge",
];

pub fn op_byte(i: &Instr) -> u8 {
    match i {
        Instr::Op(b) => *b,
        Instr::Const32(_) => 0x41,
        Instr::Const64(_) => 0x42,
        Instr::LocalGet(_) => 0x20,
        Instr::LocalSet(_) => 0x21,
        Instr::LocalTee(_) => 0x22,
        Instr::GlobalGet(_) => 0x23,
        Instr::GlobalSet(_) => 0x24,
        Instr::Mem(o, _, _) => *o,
        Instr::MemSize => 0x3f,
        Instr::MemGrow => 0x40,
        Instr::Block(..) => 0x02,
        Instr::Loop(..) => 0x03,
        Instr::If(..) => 0x04,
        Instr::Br(_) => 0x0c,
        Instr::BrIf(_) => 0x0d,
        Instr::BrTable(..) => 0x0e,
        Instr::Call(_) => 0x10,
        Instr::CallIndirect(_) => 0x11,
    }
}

pub const PAGE: usize = 65536;
pub const CHAIN_MAX_PAGES: u32 = 512;

impl<'a, H: RefHost> Machine<'a, H> {
    pub fn new(m: &'a Module, host: H, max_steps: u64, cost: Cost) -> Self {
        let (mem, max_pages) = match m.memory {
            Some((min, max)) => {
                let mut mem = vec![0u8; min as usize * PAGE];
                for (off, d) in &m.data {
                    mem[*off as usize..*off as usize + d.len()].copy_from_slice(d);
                }
                (mem, max.unwrap_or(CHAIN_MAX_PAGES).min(CHAIN_MAX_PAGES))
            }
            None => (vec![], 0),
        };
        let globals = m
            .globals
            .iter()
            .map(|g| match g.ty {
                Ty::I32 => V::I32(g.init as i32),
                Ty::I64 => V::I64(g.init),
            })
            .collect();
        let mut table = vec![None; m.table.unwrap_or(0) as usize];
        for (off, fs) in &m.elems {
            for (i, f) in fs.iter().enumerate() {
                table[*off as usize + i] = Some(*f);
            }
        }
        Machine {
            m,
            mem,
            max_pages,
            globals,
            table,
            host,
            steps: 0,
            max_steps,
            depth: 0,
            max_depth: 900,
            cost,
            energy: 0,
            grow_requests: vec![],
            grow_before: vec![],
            ops: [0; 256],
            br: [0; 12],
            host_calls: 0,
        }
    }

    fn func_ty(&self, idx: u32) -> &FuncTy {
        let ni = self.m.imports.len() as u32;
        if idx < ni {
            &self.m.types[self.m.imports[idx as usize].ty as usize]
        } else {
            &self.m.types[self.m.funcs[(idx - ni) as usize].ty as usize]
        }
    }

    pub fn invoke(&mut self, idx: u32, args: &[V]) -> Result<Option<V>, Trap> {
        let ni = self.m.imports.len() as u32;
        if idx < ni {
            let imp = &self.m.imports[idx as usize];
            self.host_calls += 1;
            return self.host.call_with_energy(imp, args, &mut self.mem, &mut self.energy);
        }
        if self.depth >= self.max_depth {
            return Err(Trap::CallDepth);
        }
        self.depth += 1;
        let f = &self.m.funcs[(idx - ni) as usize];
        let ty = &self.m.types[f.ty as usize];
        let mut locals: Vec<V> = args.to_vec();
        for l in &f.locals {
            locals.push(V::zero(*l));
        }
        // invoke_after
        self.energy += match self.cost {
            Cost::None => 0,
            Cost::V0 => 4 * f.locals.len() as u64,
            Cost::V1 => (f.locals.len() / 16) as u64,
        };
        let mut stack: Vec<V> = vec![];
        let mut labels: Vec<Option<Ty>> = vec![ty.result];
        let fl = self.exec(&f.body, &mut stack, &mut locals, &mut labels)?;
        let _ = fl;
        self.depth -= 1;
        Ok(match ty.result {
            None => None,
            Some(_) => Some(stack.pop().expect("ref: missing result")),
        })
    }

    fn arity(labels: &[Option<Ty>], l: u32) -> usize {
        labels[labels.len() - 1 - l as usize].is_some() as usize
    }

    fn instr_cost(&self, i: &Instr, labels: &[Option<Ty>]) -> u64 {
        let v0 = match self.cost {
            Cost::None => return 0,
            Cost::V0 => true,
            Cost::V1 => false,
        };
        let ib = |na: usize, nr: usize| -> u64 {
            if v0 {
                10 + na as u64 + 8 + nr as u64 + 8
            } else {
                2 + na as u64 + 2 + nr as u64 + 2
            }
        };
        match i {
            Instr::Op(b) => match *b {
                OP_NOP => 1,
                OP_UNREACHABLE => 0,
                OP_RETURN => {
                    if v0 {
                        8 + labels[0].is_some() as u64
                    } else {
                        2
                    }
                }
                OP_DROP => {
                    if v0 {
                        2
                    } else {
                        0
                    }
                }
                OP_SELECT => {
                    if v0 {
                        3
                    } else {
                        2
                    }
                }
                // eqz (test ops are unary "simple unop")
                0x45 | 0x50 => {
                    if v0 {
                        3
                    } else {
                        1
                    }
                }
                // relops
                0x46..=0x4f | 0x51..=0x5a => {
                    if v0 {
                        4
                    } else {
                        1
                    }
                }
                // i32 clz ctz popcnt
                0x67..=0x69 | 0x79..=0x7b => {
                    if v0 {
                        3
                    } else {
                        1
                    }
                }
                // mul div rem : i32 0x6c..0x70, i64 0x7e..0x82
                0x6c..=0x70 | 0x7e..=0x82 => {
                    if v0 {
                        5
                    } else {
                        2
                    }
                }
                // other binops
                0x6a | 0x6b | 0x71..=0x78 | 0x7c | 0x7d | 0x83..=0x8a => {
                    if v0 {
                        4
                    } else {
                        1
                    }
                }
                // conversions and sign extension
                0xa7 | 0xac | 0xad | 0xc0..=0xc4 => {
                    if v0 {
                        3
                    } else {
                        1
                    }
                }
                _ => panic!("ref: no cost for opcode {:#x}", b),
            },
            Instr::Const32(_) | Instr::Const64(_) => {
                if v0 {
                    2
                } else {
                    0
                }
            }
            Instr::LocalGet(_) | Instr::LocalSet(_) | Instr::LocalTee(_) => {
                if v0 {
                    3
                } else {
                    0
                }
            }
            Instr::GlobalGet(_) | Instr::GlobalSet(_) => {
                if v0 {
                    3
                } else {
                    1
                }
            }
            Instr::Mem(op, _, _) => {
                if *op <= 0x35 {
                    // loads
                    if v0 {
                        4
                    } else {
                        1
                    }
                } else if v0 {
                    match *op {
                        0x36 => 2 + 2 + 4,
                        0x37 => 2 + 2 + 6,
                        0x3a => 2 + 2 + 1,
                        0x3b => 2 + 2 + 4,
                        0x3c => 2 + 2 + 1 + 2,
                        0x3d => 2 + 2 + 2 + 3,
                        0x3e => 2 + 2 + 2 + 4,
                        _ => unreachable!(),
                    }
                } else {
                    2
                }
            }
            Instr::MemSize => {
                if v0 {
                    4
                } else {
                    1
                }
            }
            Instr::MemGrow => 10,
            Instr::Block(..) | Instr::Loop(..) => 0,
            Instr::If(..) => if v0 { 10 } else { 4 },
            Instr::Br(l) => {
                if v0 {
                    8 + Self::arity(labels, *l) as u64
                } else {
                    2
                }
            }
            Instr::BrIf(_) => {
                if v0 {
                    10
                } else {
                    4
                }
            }
            Instr::BrTable(_, d) => {
                if v0 {
                    2 + 8 + Self::arity(labels, *d) as u64
                } else {
                    7
                }
            }
            Instr::Call(f) => {
                let t = self.func_ty(*f);
                ib(t.params.len(), t.result.is_some() as usize)
            }
            Instr::CallIndirect(t) => {
                let t = &self.m.types[*t as usize];
                let n = t.params.len() + t.result.is_some() as usize;
                2 + if v0 { n as u64 } else { (n / 10) as u64 }
                    + ib(t.params.len(), t.result.is_some() as usize)
            }
        }
    }

    fn ea(&self, base: i32, off: u32, n: usize) -> Result<usize, Trap> {
        let ea = base as u32 as u64 + off as u64;
        if ea + n as u64 > self.mem.len() as u64 {
            Err(Trap::MemOob)
        } else {
            Ok(ea as usize)
        }
    }

    fn exec(
        &mut self,
        is: &[Instr],
        st: &mut Vec<V>,
        locals: &mut Vec<V>,
        labels: &mut Vec<Option<Ty>>,
    ) -> Result<Flow, Trap> {
        for i in is {
            self.steps += 1;
            if self.steps > self.max_steps {
                return Err(Trap::Fuel);
            }
            self.energy += self.instr_cost(i, labels);
            self.ops[op_byte(i) as usize] += 1;
            match i {
                Instr::Op(b) => match *b {
                    OP_UNREACHABLE => return Err(Trap::Unreachable),
                    OP_NOP => {}
                    OP_RETURN => return Ok(Flow::Return),
                    OP_DROP => {
                        st.pop().unwrap();
                    }
                    OP_SELECT => {
                        let c = st.pop().unwrap().i32();
                        let v2 = st.pop().unwrap();
                        let v1 = st.pop().unwrap();
                        st.push(if c != 0 { v1 } else { v2 });
                    }
                    op => self.numeric(op, st)?,
                },
                Instr::Const32(c) => st.push(V::I32(*c)),
                Instr::Const64(c) => st.push(V::I64(*c)),
                Instr::LocalGet(x) => st.push(locals[*x as usize]),
                Instr::LocalSet(x) => locals[*x as usize] = st.pop().unwrap(),
                Instr::LocalTee(x) => locals[*x as usize] = *st.last().unwrap(),
                Instr::GlobalGet(x) => st.push(self.globals[*x as usize]),
                Instr::GlobalSet(x) => self.globals[*x as usize] = st.pop().unwrap(),
                Instr::Mem(op, _a, off) => self.memop(*op, *off, st)?,
                Instr::MemSize => st.push(V::I32((self.mem.len() / PAGE) as i32)),
                Instr::MemGrow => {
                    let n = st.pop().unwrap().i32() as u32;
                    self.grow_requests.push(n);
                    let cur = (self.mem.len() / PAGE) as u64;
                    self.grow_before.push(cur as u32);
                    if cur + n as u64 > self.max_pages as u64 {
                        st.push(V::I32(-1));
                    } else {
                        self.mem.resize((cur as usize + n as usize) * PAGE, 0);
                        st.push(V::I32(cur as i32));
                    }
                }
                Instr::Block(t, body) => {
                    let h = st.len();
                    labels.push(*t);
                    let fl = self.exec(body, st, locals, labels)?;
                    labels.pop();
                    match fl {
                        Flow::Normal => {}
                        Flow::Br(0) => Self::unwind(st, h, t.is_some()),
                        Flow::Br(n) => return Ok(Flow::Br(n - 1)),
                        Flow::Return => return Ok(Flow::Return),
                    }
                }
                Instr::Loop(t, body) => {
                    let h = st.len();
                    loop {
                        labels.push(None);
                        let fl = self.exec(body, st, locals, labels)?;
                        labels.pop();
                        match fl {
                            Flow::Normal => break,
                            Flow::Br(0) => {
                                Self::unwind(st, h, false);
                                self.br[11] += 1;
                                self.steps += 1;
                                if self.steps > self.max_steps {
                                    return Err(Trap::Fuel);
                                }
                                continue;
                            }
                            Flow::Br(n) => return Ok(Flow::Br(n - 1)),
                            Flow::Return => return Ok(Flow::Return),
                        }
                    }
                    let _ = t;
                }
                Instr::If(t, a, b) => {
                    let c = st.pop().unwrap().i32();
                    let h = st.len();
                    let body: &[Instr] = if c != 0 {
                        a
                    } else {
                        match b {
                            Some(b) => b,
                            None => &[],
                        }
                    };
                    labels.push(*t);
                    let fl = self.exec(body, st, locals, labels)?;
                    labels.pop();
                    match fl {
                        Flow::Normal => {}
                        Flow::Br(0) => Self::unwind(st, h, t.is_some()),
                        Flow::Br(n) => return Ok(Flow::Br(n - 1)),
                        Flow::Return => return Ok(Flow::Return),
                    }
                }
                Instr::Br(l) => {
                    let a = Self::arity(labels, *l);
                    let is_fn = *l as usize == labels.len() - 1;
                    self.br[if is_fn { 2 } else { 0 } + a] += 1;
                    return Ok(Flow::Br(*l));
                }
                Instr::BrIf(l) => {
                    let c = st.pop().unwrap().i32();
                    self.br[if c != 0 { 4 } else { 6 } + Self::arity(labels, *l)] += 1;
                    if c != 0 {
                        // the taken branch is charged as a branch in addition
                        self.energy += match self.cost {
                            Cost::None => 0,
                            Cost::V0 => 8 + Self::arity(labels, *l) as u64,
                            Cost::V1 => 2,
                        };
                        return Ok(Flow::Br(*l));
                    }
                }
                Instr::BrTable(ls, d) => {
                    let c = st.pop().unwrap().i32() as u32;
                    let l = if (c as usize) < ls.len() { ls[c as usize] } else { *d };
                    self.br[8 + Self::arity(labels, l)] += 1;
                    if (c as usize) >= ls.len() {
                        self.br[10] += 1;
                    }
                    return Ok(Flow::Br(l));
                }
                Instr::Call(f) => {
                    let fl = self.call(*f, st)?;
                    let _ = fl;
                }
                Instr::CallIndirect(t) => {
                    let idx = st.pop().unwrap().i32() as u32;
                    let f = match self.table.get(idx as usize) {
                        None => return Err(Trap::TableOob),
                        Some(None) => return Err(Trap::NullElem),
                        Some(Some(f)) => *f,
                    };
                    if self.func_ty(f) != &self.m.types[*t as usize] {
                        return Err(Trap::SigMismatch);
                    }
                    self.call(f, st)?;
                }
            }
        }
        Ok(Flow::Normal)
    }

    fn call(&mut self, f: u32, st: &mut Vec<V>) -> Result<(), Trap> {
        let n = self.func_ty(f).params.len();
        let args: Vec<V> = st.split_off(st.len() - n);
        if let Some(r) = self.invoke(f, &args)? {
            st.push(r);
        }
        Ok(())
    }

    fn unwind(st: &mut Vec<V>, h: usize, carry: bool) {
        if carry {
            let v = st.pop().unwrap();
            st.truncate(h);
            st.push(v);
        } else {
            st.truncate(h);
        }
    }

    fn memop(&mut self, op: u8, off: u32, st: &mut Vec<V>) -> Result<(), Trap> {
        macro_rules! load {
            ($n:expr, $conv:expr) => {{
                let base = st.pop().unwrap().i32();
                let ea = self.ea(base, off, $n)?;
                let mut b = [0u8; 8];
                b[..$n].copy_from_slice(&self.mem[ea..ea + $n]);
                let raw = u64::from_le_bytes(b);
                st.push($conv(raw));
            }};
        }
        macro_rules! store {
            ($n:expr, $get:ident) => {{
                let v = st.pop().unwrap().$get() as u64;
                let base = st.pop().unwrap().i32();
                let ea = self.ea(base, off, $n)?;
                self.mem[ea..ea + $n].copy_from_slice(&v.to_le_bytes()[..$n]);
            }};
        }
        match op {
            0x28 => load!(4, |r: u64| V::I32(r as u32 as i32)),
            0x29 => load!(8, |r: u64| V::I64(r as i64)),
            0x2c => load!(1, |r: u64| V::I32(r as u8 as i8 as i32)),
            0x2d => load!(1, |r: u64| V::I32(r as u8 as i32)),
            0x2e => load!(2, |r: u64| V::I32(r as u16 as i16 as i32)),
            0x2f => load!(2, |r: u64| V::I32(r as u16 as i32)),
            0x30 => load!(1, |r: u64| V::I64(r as u8 as i8 as i64)),
            0x31 => load!(1, |r: u64| V::I64(r as u8 as i64)),
            0x32 => load!(2, |r: u64| V::I64(r as u16 as i16 as i64)),
            0x33 => load!(2, |r: u64| V::I64(r as u16 as i64)),
            0x34 => load!(4, |r: u64| V::I64(r as u32 as i32 as i64)),
            0x35 => load!(4, |r: u64| V::I64(r as u32 as i64)),
            0x36 => store!(4, i32),
            0x37 => store!(8, i64),
            0x3a => store!(1, i32),
            0x3b => store!(2, i32),
            0x3c => store!(1, i64),
            0x3d => store!(2, i64),
            0x3e => store!(4, i64),
            _ => panic!("ref: bad memop {:#x}", op),
        }
        Ok(())
    }

    fn numeric(&mut self, op: u8, st: &mut Vec<V>) -> Result<(), Trap> {
        let b2i = |b: bool| V::I32(b as i32);
        match op {
            0x45 => {
                let a = st.pop().unwrap().i32();
                st.push(b2i(a == 0))
            }
            0x46..=0x4f => {
                let b = st.pop().unwrap().i32();
                let a = st.pop().unwrap().i32();
                let (ua, ub) = (a as u32, b as u32);
                st.push(b2i(match op {
                    0x46 => a == b,
                    0x47 => a != b,
                    0x48 => a < b,
                    0x49 => ua < ub,
                    0x4a => a > b,
                    0x4b => ua > ub,
                    0x4c => a <= b,
                    0x4d => ua <= ub,
                    0x4e => a >= b,
                    _ => ua >= ub,
                }))
            }
            0x50 => {
                let a = st.pop().unwrap().i64();
                st.push(b2i(a == 0))
            }
            0x51..=0x5a => {
                let b = st.pop().unwrap().i64();
                let a = st.pop().unwrap().i64();
                let (ua, ub) = (a as u64, b as u64);
                st.push(b2i(match op {
                    0x51 => a == b,
                    0x52 => a != b,
                    0x53 => a < b,
                    0x54 => ua < ub,
                    0x55 => a > b,
                    0x56 => ua > ub,
                    0x57 => a <= b,
                    0x58 => ua <= ub,
                    0x59 => a >= b,
                    _ => ua >= ub,
                }))
            }
            0x67 => {
                let a = st.pop().unwrap().i32();
                st.push(V::I32(a.leading_zeros() as i32))
            }
            0x68 => {
                let a = st.pop().unwrap().i32();
                st.push(V::I32(a.trailing_zeros() as i32))
            }
            0x69 => {
                let a = st.pop().unwrap().i32();
                st.push(V::I32(a.count_ones() as i32))
            }
            0x6a..=0x78 => {
                let b = st.pop().unwrap().i32();
                let a = st.pop().unwrap().i32();
                let (ua, ub) = (a as u32, b as u32);
                let r = match op {
                    0x6a => a.wrapping_add(b),
                    0x6b => a.wrapping_sub(b),
                    0x6c => a.wrapping_mul(b),
                    0x6d => {
                        if b == 0 {
                            return Err(Trap::DivZero);
                        }
                        if a == i32::MIN && b == -1 {
                            return Err(Trap::Overflow);
                        }
                        a / b
                    }
                    0x6e => {
                        if b == 0 {
                            return Err(Trap::DivZero);
                        }
                        (ua / ub) as i32
                    }
                    0x6f => {
                        if b == 0 {
                            return Err(Trap::DivZero);
                        }
                        a.wrapping_rem(b)
                    }
                    0x70 => {
                        if b == 0 {
                            return Err(Trap::DivZero);
                        }
                        (ua % ub) as i32
                    }
                    0x71 => a & b,
                    0x72 => a | b,
                    0x73 => a ^ b,
                    0x74 => a.wrapping_shl(ub),
                    0x75 => a.wrapping_shr(ub),
                    0x76 => ua.wrapping_shr(ub) as i32,
                    0x77 => a.rotate_left(ub % 32),
                    _ => a.rotate_right(ub % 32),
                };
                st.push(V::I32(r))
            }
            0x79 => {
                let a = st.pop().unwrap().i64();
                st.push(V::I64(a.leading_zeros() as i64))
            }
            0x7a => {
                let a = st.pop().unwrap().i64();
                st.push(V::I64(a.trailing_zeros() as i64))
            }
            0x7b => {
                let a = st.pop().unwrap().i64();
                st.push(V::I64(a.count_ones() as i64))
            }
            0x7c..=0x8a => {
                let b = st.pop().unwrap().i64();
                let a = st.pop().unwrap().i64();
                let (ua, ub) = (a as u64, b as u64);
                let r = match op {
                    0x7c => a.wrapping_add(b),
                    0x7d => a.wrapping_sub(b),
                    0x7e => a.wrapping_mul(b),
                    0x7f => {
                        if b == 0 {
                            return Err(Trap::DivZero);
                        }
                        if a == i64::MIN && b == -1 {
                            return Err(Trap::Overflow);
                        }
                        a / b
                    }
                    0x80 => {
                        if b == 0 {
                            return Err(Trap::DivZero);
                        }
                        (ua / ub) as i64
                    }
                    0x81 => {
                        if b == 0 {
                            return Err(Trap::DivZero);
                        }
                        a.wrapping_rem(b)
                    }
                    0x82 => {
                        if b == 0 {
                            return Err(Trap::DivZero);
                        }
                        (ua % ub) as i64
                    }
                    0x83 => a & b,
                    0x84 => a | b,
                    0x85 => a ^ b,
                    0x86 => a.wrapping_shl(ub as u32),
                    0x87 => a.wrapping_shr(ub as u32),
                    0x88 => ua.wrapping_shr(ub as u32) as i64,
                    0x89 => a.rotate_left((ub % 64) as u32),
                    _ => a.rotate_right((ub % 64) as u32),
                };
                st.push(V::I64(r))
            }
            0xa7 => {
                let a = st.pop().unwrap().i64();
                st.push(V::I32(a as i32))
            }
            0xac => {
                let a = st.pop().unwrap().i32();
                st.push(V::I64(a as i64))
            }
            0xad => {
                let a = st.pop().unwrap().i32();
                st.push(V::I64(a as u32 as i64))
            }
            0xc0 => {
                let a = st.pop().unwrap().i32();
                st.push(V::I32(a as i8 as i32))
            }
            0xc1 => {
                let a = st.pop().unwrap().i32();
                st.push(V::I32(a as i16 as i32))
            }
            0xc2 => {
                let a = st.pop().unwrap().i64();
                st.push(V::I64(a as i8 as i64))
            }
            0xc3 => {
                let a = st.pop().unwrap().i64();
                st.push(V::I64(a as i16 as i64))
            }
            0xc4 => {
                let a = st.pop().unwrap().i64();
                st.push(V::I64(a as i32 as i64))
            }
            _ => panic!("ref: unknown opcode {:#x}", op),
        }
        Ok(())
    }
}
