//! Text rendering of harness modules (for witnesses and evidence samples).
use crate::ast::*;

pub fn show(is: &[Instr]) -> String {
    let mut s = String::new();
    for i in is {
        let t = match i {
            Instr::Op(b) => format!("op{:#x}", b),
            Instr::Const32(c) => format!("i32.const {}", c),
            Instr::Const64(c) => format!("i64.const {}", c),
            Instr::LocalGet(x) => format!("local.get {}", x),
            Instr::LocalSet(x) => format!("local.set {}", x),
            Instr::LocalTee(x) => format!("local.tee {}", x),
            Instr::GlobalGet(x) => format!("global.get {}", x),
            Instr::GlobalSet(x) => format!("global.set {}", x),
            Instr::Mem(o, a, off) => format!("mem{:#x} a={} o={}", o, a, off),
            Instr::MemSize => "memory.size".into(),
            Instr::MemGrow => "memory.grow".into(),
            Instr::Block(t, b) => format!("(block {:?} {})", t, show(b)),
            Instr::Loop(t, b) => format!("(loop {:?} {})", t, show(b)),
            Instr::If(t, a, b) => format!("(if {:?} {} else {})", t, show(a), b.as_ref().map(|b| show(b)).unwrap_or("-".into())),
            Instr::Br(l) => format!("br {}", l),
            Instr::BrIf(l) => format!("br_if {}", l),
            Instr::BrTable(ls, d) => format!("br_table {:?} {}", ls, d),
            Instr::Call(f) => format!("call {}", f),
            Instr::CallIndirect(t) => format!("call_indirect {}", t),
        };
        s.push_str(&t);
        s.push_str("; ");
    }
    s
}

pub fn show_mod(m: &Module) -> String {
    let mut s = String::new();
    s.push_str(&format!("types {:?}\n", m.types.iter().map(|t| format!("{:?}->{:?}", t.params, t.result)).collect::<Vec<_>>()));
    s.push_str(&format!(
        "imports {:?} globals {:?} table {:?} elems {:?} mem {:?} data {:?} exports {:?}\n",
        m.imports.iter().map(|i| &i.name).collect::<Vec<_>>(),
        m.globals,
        m.table,
        m.elems,
        m.memory,
        m.data.iter().map(|(o, d)| (*o, d.len())).collect::<Vec<_>>(),
        m.exports
    ));
    for (i, f) in m.funcs.iter().enumerate() {
        s.push_str(&format!("func#{} ty {} locals {:?}: {}\n", i + m.imports.len(), f.ty, f.locals, show(&f.body)));
    }
    s
}

pub fn count(is: &[Instr]) -> usize {
    is.iter()
        .map(|i| {
            1 + match i {
                Instr::Block(_, b) | Instr::Loop(_, b) => count(b),
                Instr::If(_, a, b) => count(a) + b.as_ref().map(|b| count(b)).unwrap_or(0),
                _ => 0,
            }
        })
        .sum()
}
