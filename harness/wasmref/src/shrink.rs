//! Delta-debugging of harness modules against an arbitrary predicate.
use crate::{ast::*, show::count};

/// remove (mode 0) or unwrap (mode 1) the n-th instruction in preorder
fn edit(is: &mut Vec<Instr>, n: &mut usize, mode: u8) -> bool {
    let mut i = 0;
    while i < is.len() {
        if *n == 0 {
            if mode == 0 {
                is.remove(i);
            } else {
                let inner = match &is[i] {
                    Instr::Block(_, b) | Instr::Loop(_, b) => b.clone(),
                    Instr::If(_, a, _) => {
                        let mut v = vec![Instr::Op(OP_DROP)];
                        v.extend(a.clone());
                        v
                    }
                    _ => return true,
                };
                is.splice(i..i + 1, inner);
            }
            return true;
        }
        *n -= 1;
        let done = match &mut is[i] {
            Instr::Block(_, b) | Instr::Loop(_, b) => edit(b, n, mode),
            Instr::If(_, a, b) => edit(a, n, mode) || b.as_mut().map(|b| edit(b, n, mode)).unwrap_or(false),
            _ => false,
        };
        if done {
            return true;
        }
        i += 1;
    }
    false
}

/// Shrink `m` while `still_fails` holds. The predicate must return false for
/// modules that are invalid (the engine rejects them), so validity is
/// preserved. Bounded by `max_tests` predicate evaluations.
pub fn shrink(mut m: Module, mut still_fails: impl FnMut(&Module) -> bool, max_tests: usize) -> Module {
    let mut tests = 0usize;
    loop {
        let mut progress = false;
        for f in 0..m.funcs.len() {
            for mode in [1u8, 0u8] {
                let mut k = 0;
                while k < count(&m.funcs[f].body) {
                    if tests >= max_tests {
                        return m;
                    }
                    let mut c = m.clone();
                    let mut n = k;
                    edit(&mut c.funcs[f].body, &mut n, mode);
                    if count(&c.funcs[f].body) == count(&m.funcs[f].body) {
                        k += 1;
                        continue;
                    }
                    tests += 1;
                    if still_fails(&c) {
                        m = c;
                        progress = true;
                    } else {
                        k += 1;
                    }
                }
            }
        }
        let mut d = 0;
        while d < m.data.len() {
            if tests >= max_tests {
                return m;
            }
            let mut c = m.clone();
            c.data.remove(d);
            tests += 1;
            if still_fails(&c) {
                m = c;
                progress = true;
            } else {
                d += 1;
            }
        }
        let mut e = 0;
        while e < m.elems.len() {
            if tests >= max_tests {
                return m;
            }
            let mut c = m.clone();
            c.elems.remove(e);
            tests += 1;
            if still_fails(&c) {
                m = c;
                progress = true;
            } else {
                e += 1;
            }
        }
        if !progress {
            return m;
        }
    }
}
