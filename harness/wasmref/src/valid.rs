//! Independent binary decoder + validator for the chain's WebAssembly subset.
//!
//! Written from the WebAssembly 1.0 specification (binary format, validation
//! algorithm of the appendix) and from the *documented* chain restrictions
//! (module docs of `parse.rs`/`validate.rs`, `constants.rs`): no floating
//! point, no start function, only function imports, at most one memory and
//! table, at most one result, names ASCII and <= 512 bytes (exported function
//! names <= 100), initial table size <= 1000, initial memory <= 32 pages,
//! memory maximum <= 65536, <= 1024 globals, <= 100 exports, br_table <= 4096
//! labels, locals (incl. parameters) <= 1024, locals + operand stack height
//! <= 1024, element/data segments inside the initial table/memory, global
//! initialisers are plain constants, segment offsets may read an immutable
//! module global only under V0, sign-extension operators only under V1.
//! Shares no code with the engine.

#[derive(Clone, Copy, PartialEq, Eq, Debug)]
pub enum VT {
    I32,
    I64,
}

#[derive(Debug)]
pub struct Invalid(pub String);

type R<T> = Result<T, Invalid>;

fn bad<T>(s: impl Into<String>) -> R<T> { Err(Invalid(s.into())) }

struct Cur<'a> {
    b: &'a [u8],
    p: usize,
}

impl<'a> Cur<'a> {
    fn new(b: &'a [u8]) -> Self { Cur { b, p: 0 } }

    fn eof(&self) -> bool { self.p >= self.b.len() }

    fn byte(&mut self) -> R<u8> {
        if self.p < self.b.len() {
            self.p += 1;
            Ok(self.b[self.p - 1])
        } else {
            bad("unexpected end")
        }
    }

    fn take(&mut self, n: usize) -> R<&'a [u8]> {
        if n <= self.b.len() - self.p {
            let s = &self.b[self.p..self.p + n];
            self.p += n;
            Ok(s)
        } else {
            bad("unexpected end (bytes)")
        }
    }

    /// unsigned LEB128 of at most `bits` bits (spec 5.2.2)
    fn uleb(&mut self, bits: u32) -> R<u64> {
        let max_bytes = (bits + 6) / 7;
        let mut result: u64 = 0;
        for i in 0..max_bytes {
            let b = self.byte()?;
            let payload = (b & 0x7f) as u64;
            let shift = 7 * i;
            // bits that do not fit must be zero
            if shift + 7 > bits {
                let allowed = bits - shift;
                if payload >> allowed != 0 {
                    return bad("uleb: unused bits set");
                }
            }
            result |= payload << shift;
            if b & 0x80 == 0 {
                return Ok(result);
            }
        }
        bad("uleb: too long")
    }

    /// signed LEB128 of at most `bits` bits
    fn sleb(&mut self, bits: u32) -> R<i64> {
        let max_bytes = (bits + 6) / 7;
        let mut result: i64 = 0;
        let mut shift = 0u32;
        for _ in 0..max_bytes {
            let b = self.byte()?;
            let payload = (b & 0x7f) as i64;
            if shift + 7 > bits {
                // last byte: the bits beyond `bits` must be copies of the sign bit
                let used = bits - shift; // number of value bits in this byte (>= 1)
                let sign = (payload >> (used - 1)) & 1;
                let rest = payload >> used;
                let expect = if sign == 1 { (1i64 << (7 - used)) - 1 } else { 0 };
                if rest != expect {
                    return bad("sleb: unused bits are not a sign extension");
                }
            }
            result |= payload << shift;
            shift += 7;
            if b & 0x80 == 0 {
                if shift < 64 && (b & 0x40) != 0 {
                    result |= -1i64 << shift;
                }
                return Ok(result);
            }
        }
        bad("sleb: too long")
    }

    fn u32(&mut self) -> R<u32> { Ok(self.uleb(32)? as u32) }
}

fn name(c: &mut Cur) -> R<String> {
    let n = c.u32()? as usize;
    let b = c.take(n)?;
    if n > 512 {
        return bad("name too long");
    }
    if !b.is_ascii() {
        return bad("name not ASCII");
    }
    Ok(String::from_utf8(b.to_vec()).unwrap())
}

fn valtype(c: &mut Cur) -> R<VT> {
    match c.byte()? {
        0x7f => Ok(VT::I32),
        0x7e => Ok(VT::I64),
        b => bad(format!("unsupported value type {:#x}", b)),
    }
}

fn limits(c: &mut Cur) -> R<(u32, Option<u32>)> {
    match c.byte()? {
        0 => Ok((c.u32()?, None)),
        1 => {
            let min = c.u32()?;
            let max = c.u32()?;
            if min > max {
                return bad("limits min > max");
            }
            Ok((min, Some(max)))
        }
        _ => bad("limits flag"),
    }
}

#[derive(Clone, Debug, PartialEq, Eq)]
pub struct FT {
    pub params: Vec<VT>,
    pub result: Option<VT>,
}

struct GlobalDef {
    ty: VT,
    mutable: bool,
    init: i64,
}

/// constant expression: returns the value
fn const_expr(c: &mut Cur, ty: VT, globals_allowed: Option<&[GlobalDef]>) -> R<i64> {
    let v = match c.byte()? {
        0x41 => {
            let v = c.sleb(32)?;
            if ty != VT::I32 {
                return bad("const expr type");
            }
            v
        }
        0x42 => {
            let v = c.sleb(64)?;
            if ty != VT::I64 {
                return bad("const expr type");
            }
            v
        }
        0x23 => {
            let idx = c.u32()? as usize;
            match globals_allowed {
                None => return bad("global.get not allowed in this constant expression"),
                Some(gs) => match gs.get(idx) {
                    None => return bad("constant expression refers to unknown global"),
                    Some(g) => {
                        if g.ty != ty || g.mutable {
                            return bad("constant expression global of wrong type or mutable");
                        }
                        g.init
                    }
                },
            }
        }
        _ => return bad("not a constant instruction"),
    };
    if c.byte()? != 0x0b {
        return bad("constant expression not terminated");
    }
    Ok(v)
}

#[derive(Clone, Copy, PartialEq, Eq)]
enum MK {
    Unknown,
    Known(VT),
}

struct Frame {
    is_if: bool,
    label: Option<VT>,
    end: Option<VT>,
    height: usize,
    unreachable: bool,
}

struct FnCtx<'a> {
    types: &'a [FT],
    funcs: &'a [u32],
    globals: &'a [GlobalDef],
    locals: Vec<VT>,
    has_mem: bool,
    has_table: bool,
    ret: Option<VT>,
    sign_ext: bool,
}

struct VState {
    opds: Vec<MK>,
    ctrls: Vec<Frame>,
    /// max height counting every push
    max_all: usize,
    /// max height counting only pushes with no enclosing unreachable frame
    max_reach: usize,
}

impl VState {
    fn push(&mut self, t: MK) {
        self.opds.push(t);
        self.max_all = self.max_all.max(self.opds.len());
        if self.ctrls.iter().all(|f| !f.unreachable) {
            self.max_reach = self.max_reach.max(self.opds.len());
        }
    }

    fn pop(&mut self) -> R<MK> {
        let f = match self.ctrls.last() {
            None => return bad("control stack empty"),
            Some(f) => f,
        };
        if self.opds.len() == f.height {
            if f.unreachable {
                Ok(MK::Unknown)
            } else {
                bad("operand stack underflow")
            }
        } else {
            Ok(self.opds.pop().unwrap())
        }
    }

    fn pop_expect(&mut self, e: MK) -> R<MK> {
        let a = self.pop()?;
        if a == MK::Unknown {
            return Ok(e);
        }
        if e == MK::Unknown {
            return Ok(a);
        }
        if a != e {
            return bad("type mismatch");
        }
        Ok(a)
    }

    fn pop_t(&mut self, t: VT) -> R<()> { self.pop_expect(MK::Known(t)).map(|_| ()) }

    fn push_t(&mut self, t: VT) { self.push(MK::Known(t)) }

    fn pop_opt(&mut self, t: Option<VT>) -> R<()> {
        if let Some(t) = t {
            self.pop_t(t)?;
        }
        Ok(())
    }

    fn push_opt(&mut self, t: Option<VT>) {
        if let Some(t) = t {
            self.push_t(t)
        }
    }

    fn push_ctrl(&mut self, is_if: bool, label: Option<VT>, end: Option<VT>) {
        let height = self.opds.len();
        self.ctrls.push(Frame { is_if, label, end, height, unreachable: false });
    }

    fn pop_ctrl(&mut self) -> R<(Option<VT>, bool)> {
        let (end, height, is_if) = match self.ctrls.last() {
            None => return bad("control stack exhausted"),
            Some(f) => (f.end, f.height, f.is_if),
        };
        self.pop_opt(end)?;
        if self.opds.len() != height {
            return bad("operand stack not exhausted at end of block");
        }
        self.ctrls.pop();
        Ok((end, is_if))
    }

    fn unreachable(&mut self) -> R<()> {
        match self.ctrls.last_mut() {
            None => bad("control stack exhausted"),
            Some(f) => {
                self.opds.truncate(f.height);
                f.unreachable = true;
                Ok(())
            }
        }
    }

    fn label(&self, n: u32) -> R<Option<VT>> {
        let n = n as usize;
        if n >= self.ctrls.len() {
            return bad("unknown label");
        }
        Ok(self.ctrls[self.ctrls.len() - 1 - n].label)
    }
}

fn blocktype(c: &mut Cur) -> R<Option<VT>> {
    match c.byte()? {
        0x40 => Ok(None),
        0x7f => Ok(Some(VT::I32)),
        0x7e => Ok(Some(VT::I64)),
        b => bad(format!("unsupported block type {:#x}", b)),
    }
}

fn memarg(c: &mut Cur, max_align: u32, ctx: &FnCtx) -> R<()> {
    let align = c.u32()?;
    let _off = c.u32()?;
    if !ctx.has_mem {
        return bad("memory instruction without memory");
    }
    if align > max_align {
        return bad("alignment larger than natural");
    }
    Ok(())
}

/// Validate a function body; returns (max height counting all pushes, max
/// height counting truly reachable pushes).
fn validate_body(body: &[u8], ctx: &FnCtx) -> R<(usize, usize)> {
    use VT::*;
    let mut c = Cur::new(body);
    let mut s = VState { opds: vec![], ctrls: vec![], max_all: 0, max_reach: 0 };
    s.push_ctrl(false, ctx.ret, ctx.ret);
    loop {
        if s.ctrls.is_empty() {
            // the expression ended with its matching `end`
            if !c.eof() {
                return bad("bytes after the end of the function body expression");
            }
            return Ok((s.max_all, s.max_reach));
        }
        if c.eof() {
            return bad("function body not terminated");
        }
        let op = c.byte()?;
        match op {
            0x00 => s.unreachable()?,
            0x01 => {}
            0x02 => {
                let t = blocktype(&mut c)?;
                s.push_ctrl(false, t, t);
            }
            0x03 => {
                let t = blocktype(&mut c)?;
                s.push_ctrl(false, None, t);
            }
            0x04 => {
                let t = blocktype(&mut c)?;
                s.pop_t(I32)?;
                s.push_ctrl(true, t, t);
            }
            0x05 => {
                let (res, is_if) = s.pop_ctrl()?;
                if !is_if {
                    return bad("else without if");
                }
                s.push_ctrl(false, res, res);
            }
            0x0b => {
                let (res, is_if) = s.pop_ctrl()?;
                if is_if && res.is_some() {
                    return bad("if with result but without else");
                }
                if !s.ctrls.is_empty() {
                    s.push_opt(res);
                }
            }
            0x0c => {
                let l = c.u32()?;
                let t = s.label(l)?;
                s.pop_opt(t)?;
                s.unreachable()?;
            }
            0x0d => {
                let l = c.u32()?;
                let t = s.label(l)?;
                s.pop_t(I32)?;
                s.pop_opt(t)?;
                s.push_opt(t);
            }
            0x0e => {
                let n = c.u32()? as usize;
                let mut ls = Vec::new();
                for _ in 0..n {
                    ls.push(c.u32()?);
                    if ls.len() > 4096 {
                        return bad("br_table too large");
                    }
                }
                let d = c.u32()?;
                let dt = s.label(d)?;
                for l in ls {
                    if s.label(l)? != dt {
                        return bad("br_table label types differ");
                    }
                }
                s.pop_t(I32)?;
                s.pop_opt(dt)?;
                s.unreachable()?;
            }
            0x0f => {
                s.pop_opt(ctx.ret)?;
                s.unreachable()?;
            }
            0x10 => {
                let f = c.u32()? as usize;
                let ti = *ctx.funcs.get(f).ok_or_else(|| Invalid("unknown function".into()))?;
                let ft = &ctx.types[ti as usize];
                for p in ft.params.iter().rev() {
                    s.pop_t(*p)?;
                }
                s.push_opt(ft.result);
            }
            0x11 => {
                let ti = c.u32()? as usize;
                if c.byte()? != 0 {
                    return bad("call_indirect reserved byte");
                }
                if !ctx.has_table {
                    return bad("call_indirect without table");
                }
                let ft = ctx.types.get(ti).ok_or_else(|| Invalid("unknown type".into()))?;
                s.pop_t(I32)?;
                for p in ft.params.iter().rev() {
                    s.pop_t(*p)?;
                }
                s.push_opt(ft.result);
            }
            0x1a => {
                s.pop()?;
            }
            0x1b => {
                s.pop_t(I32)?;
                let t1 = s.pop()?;
                let t2 = s.pop_expect(t1)?;
                s.push(t2);
            }
            0x20 | 0x21 | 0x22 => {
                let i = c.u32()? as usize;
                let t = *ctx.locals.get(i).ok_or_else(|| Invalid("unknown local".into()))?;
                match op {
                    0x20 => s.push_t(t),
                    0x21 => s.pop_t(t)?,
                    _ => {
                        let x = s.pop_expect(MK::Known(t))?;
                        s.push(x);
                    }
                }
            }
            0x23 | 0x24 => {
                let i = c.u32()? as usize;
                let g = ctx.globals.get(i).ok_or_else(|| Invalid("unknown global".into()))?;
                if op == 0x23 {
                    s.push_t(g.ty)
                } else {
                    if !g.mutable {
                        return bad("global.set of immutable global");
                    }
                    s.pop_t(g.ty)?;
                }
            }
            0x28..=0x35 => {
                let (al, t) = match op {
                    0x28 => (2, I32),
                    0x29 => (3, I64),
                    0x2c | 0x2d => (0, I32),
                    0x2e | 0x2f => (1, I32),
                    0x30 | 0x31 => (0, I64),
                    0x32 | 0x33 => (1, I64),
                    0x34 | 0x35 => (2, I64),
                    _ => return bad("floating point load"),
                };
                memarg(&mut c, al, ctx)?;
                s.pop_t(I32)?;
                s.push_t(t);
            }
            0x36..=0x3e => {
                let (al, t) = match op {
                    0x36 => (2, I32),
                    0x37 => (3, I64),
                    0x3a => (0, I32),
                    0x3b => (1, I32),
                    0x3c => (0, I64),
                    0x3d => (1, I64),
                    0x3e => (2, I64),
                    _ => return bad("floating point store"),
                };
                memarg(&mut c, al, ctx)?;
                s.pop_t(t)?;
                s.pop_t(I32)?;
            }
            0x3f | 0x40 => {
                if c.byte()? != 0 {
                    return bad("memory.size/grow reserved byte");
                }
                if !ctx.has_mem {
                    return bad("memory instruction without memory");
                }
                if op == 0x40 {
                    s.pop_t(I32)?;
                }
                s.push_t(I32);
            }
            0x41 => {
                c.sleb(32)?;
                s.push_t(I32);
            }
            0x42 => {
                c.sleb(64)?;
                s.push_t(I64);
            }
            0x45 => {
                s.pop_t(I32)?;
                s.push_t(I32);
            }
            0x46..=0x4f => {
                s.pop_t(I32)?;
                s.pop_t(I32)?;
                s.push_t(I32);
            }
            0x50 => {
                s.pop_t(I64)?;
                s.push_t(I32);
            }
            0x51..=0x5a => {
                s.pop_t(I64)?;
                s.pop_t(I64)?;
                s.push_t(I32);
            }
            0x67..=0x69 => {
                s.pop_t(I32)?;
                s.push_t(I32);
            }
            0x6a..=0x78 => {
                s.pop_t(I32)?;
                s.pop_t(I32)?;
                s.push_t(I32);
            }
            0x79..=0x7b => {
                s.pop_t(I64)?;
                s.push_t(I64);
            }
            0x7c..=0x8a => {
                s.pop_t(I64)?;
                s.pop_t(I64)?;
                s.push_t(I64);
            }
            0xa7 => {
                s.pop_t(I64)?;
                s.push_t(I32);
            }
            0xac | 0xad => {
                s.pop_t(I32)?;
                s.push_t(I64);
            }
            0xc0 | 0xc1 if ctx.sign_ext => {
                s.pop_t(I32)?;
                s.push_t(I32);
            }
            0xc2..=0xc4 if ctx.sign_ext => {
                s.pop_t(I64)?;
                s.push_t(I64);
            }
            b => return bad(format!("unsupported instruction {:#x}", b)),
        }
    }
}

#[derive(Debug, Default, Clone)]
pub struct Summary {
    /// the two readings of "operand stack height" give different verdicts on
    /// the locals+stack bound: the case is not judged
    pub height_ambiguous: bool,
    pub num_funcs: usize,
    pub num_imports: usize,
    pub has_memory: bool,
    /// how far classification got: 0 header, 1 section list split, 2 declarations parsed,
    /// 3 function bodies validated, 4 everything
    pub stage: u8,
}

/// Classify a byte string: Ok = valid module of the chain's subset.
pub fn classify(bytes: &[u8], v1: bool) -> (Result<(), Invalid>, Summary) {
    let mut sum = Summary::default();
    let r = classify_inner(bytes, v1, &mut sum);
    (r, sum)
}

fn section<'a>(secs: &'a [(u8, &'a [u8])], id: u8) -> Option<&'a [u8]> { secs.iter().find(|(i, _)| *i == id).map(|(_, b)| *b) }

fn vec_of<T>(c: &mut Cur, mut f: impl FnMut(&mut Cur) -> R<T>) -> R<Vec<T>> {
    let n = c.u32()?;
    let mut v = Vec::new();
    for _ in 0..n {
        v.push(f(c)?);
    }
    Ok(v)
}

fn done(c: &Cur) -> R<()> {
    if c.eof() {
        Ok(())
    } else {
        bad("section has trailing bytes")
    }
}

fn classify_inner(bytes: &[u8], v1: bool, sum: &mut Summary) -> R<()> {
    let mut c = Cur::new(bytes);
    if c.take(4)? != [0x00, 0x61, 0x73, 0x6d] {
        return bad("magic");
    }
    if c.take(4)? != [1, 0, 0, 0] {
        return bad("version");
    }
    let mut secs: Vec<(u8, &[u8])> = vec![];
    let mut last = 0u8;
    while !c.eof() {
        let id = c.byte()?;
        if id > 11 {
            return bad("unknown section id");
        }
        let n = c.u32()? as usize;
        let body = c.take(n)?;
        if id == 0 {
            let mut cc = Cur::new(body);
            name(&mut cc)?;
        } else {
            if id <= last {
                return bad("section out of order or duplicated");
            }
            last = id;
            secs.push((id, body));
        }
    }
    sum.stage = 1;
    // types
    let mut types: Vec<FT> = vec![];
    if let Some(b) = section(&secs, 1) {
        let mut c = Cur::new(b);
        types = vec_of(&mut c, |c| {
            if c.byte()? != 0x60 {
                return bad("functype tag");
            }
            let params = vec_of(c, valtype)?;
            let results = vec_of(c, valtype)?;
            if results.len() > 1 {
                return bad("more than one result");
            }
            Ok(FT { params, result: results.first().copied() })
        })?;
        done(&c)?;
    }
    // imports
    let mut funcs: Vec<u32> = vec![];
    if let Some(b) = section(&secs, 2) {
        let mut c = Cur::new(b);
        let imps = vec_of(&mut c, |c| {
            name(c)?;
            name(c)?;
            if c.byte()? != 0 {
                return bad("only function imports are supported");
            }
            c.u32()
        })?;
        done(&c)?;
        for t in imps {
            if t as usize >= types.len() {
                return bad("import of unknown type");
            }
            funcs.push(t);
        }
    }
    sum.num_imports = funcs.len();
    // functions
    let mut defined: Vec<u32> = vec![];
    if let Some(b) = section(&secs, 3) {
        let mut c = Cur::new(b);
        defined = vec_of(&mut c, |c| c.u32())?;
        done(&c)?;
        for t in &defined {
            if *t as usize >= types.len() {
                return bad("function of unknown type");
            }
        }
    }
    funcs.extend(defined.iter().copied());
    sum.num_funcs = defined.len();
    // table
    let mut table: Option<(u32, Option<u32>)> = None;
    if let Some(b) = section(&secs, 4) {
        let mut c = Cur::new(b);
        let ts = vec_of(&mut c, |c| {
            if c.byte()? != 0x70 {
                return bad("table element type");
            }
            let l = limits(c)?;
            if l.0 > 1000 {
                return bad("initial table size too large");
            }
            Ok(l)
        })?;
        done(&c)?;
        if ts.len() > 1 {
            return bad("more than one table");
        }
        table = ts.first().copied();
    }
    // memory
    let mut memory: Option<(u32, Option<u32>)> = None;
    if let Some(b) = section(&secs, 5) {
        let mut c = Cur::new(b);
        let ms = vec_of(&mut c, |c| {
            let l = limits(c)?;
            if l.0 > 32 {
                return bad("initial memory too large");
            }
            if let Some(m) = l.1 {
                if m > 65536 {
                    return bad("memory maximum out of range");
                }
            }
            Ok(l)
        })?;
        done(&c)?;
        if ms.len() > 1 {
            return bad("more than one memory");
        }
        memory = ms.first().copied();
    }
    sum.has_memory = memory.is_some();
    // globals
    let mut globals: Vec<GlobalDef> = vec![];
    if let Some(b) = section(&secs, 6) {
        let mut c = Cur::new(b);
        globals = vec_of(&mut c, |c| {
            let ty = valtype(c)?;
            let mutable = match c.byte()? {
                0 => false,
                1 => true,
                _ => return bad("mutability flag"),
            };
            let init = const_expr(c, ty, None)?;
            Ok(GlobalDef { ty, mutable, init })
        })?;
        done(&c)?;
        if globals.len() > 1024 {
            return bad("too many globals");
        }
    }
    // start
    if section(&secs, 8).is_some() {
        return bad("start functions are not supported");
    }
    // code
    let mut bodies: Vec<(Vec<(u32, VT)>, &[u8])> = vec![];
    if let Some(b) = section(&secs, 10) {
        let mut c = Cur::new(b);
        let n = c.u32()?;
        for _ in 0..n {
            let size = c.u32()? as usize;
            let body = c.take(size)?;
            let mut bc = Cur::new(body);
            let locals = vec_of(&mut bc, |c| {
                let n = c.u32()?;
                let t = valtype(c)?;
                Ok((n, t))
            })?;
            bodies.push((locals, &body[bc.p..]));
        }
        done(&c)?;
    }
    if bodies.len() != defined.len() {
        return bad("function and code section lengths differ");
    }
    sum.stage = 2;
    for (ti, (locals, body)) in defined.iter().zip(bodies.iter()) {
        let ft = &types[*ti as usize];
        let mut total: u64 = ft.params.len() as u64;
        for (n, _) in locals {
            total += *n as u64;
            if total > u32::MAX as u64 {
                return bad("too many locals (overflow)");
            }
        }
        if total > 1024 {
            return bad("too many locals");
        }
        let mut ls: Vec<VT> = ft.params.clone();
        for (n, t) in locals {
            for _ in 0..*n {
                ls.push(*t);
            }
        }
        let ctx = FnCtx { types: &types, funcs: &funcs, globals: &globals, locals: ls, has_mem: memory.is_some(), has_table: table.is_some(), ret: ft.result, sign_ext: v1 };
        let (h_all, h_reach) = validate_body(body, &ctx)?;
        let ok_all = total as usize + h_all <= 1024;
        let ok_reach = total as usize + h_reach <= 1024;
        if ok_all != ok_reach {
            sum.height_ambiguous = true;
        }
        if !ok_reach {
            return bad("locals + stack height exceed 1024");
        }
    }
    sum.stage = 3;
    // exports
    if let Some(b) = section(&secs, 7) {
        let mut c = Cur::new(b);
        let exps = vec_of(&mut c, |c| {
            let n = name(c)?;
            let tag = c.byte()?;
            let idx = c.u32()?;
            Ok((n, tag, idx))
        })?;
        done(&c)?;
        if exps.len() > 100 {
            return bad("too many exports");
        }
        let mut seen = std::collections::BTreeSet::new();
        for (n, tag, idx) in exps {
            match tag {
                0 => {
                    if n.len() > 100 {
                        return bad("exported function name too long");
                    }
                    if idx as usize >= funcs.len() {
                        return bad("export of unknown function");
                    }
                }
                1 => {
                    if idx != 0 || table.is_none() {
                        return bad("export of unknown table");
                    }
                }
                2 => {
                    if idx != 0 || memory.is_none() {
                        return bad("export of unknown memory");
                    }
                }
                3 => {
                    if idx as usize >= globals.len() {
                        return bad("export of unknown global");
                    }
                }
                _ => return bad("export tag"),
            }
            if !seen.insert(n) {
                return bad("duplicate export name");
            }
        }
    }
    let seg_globals: Option<&[GlobalDef]> = if v1 { None } else { Some(&globals) };
    // elements
    if let Some(b) = section(&secs, 9) {
        let mut c = Cur::new(b);
        let n = c.u32()?;
        for _ in 0..n {
            if c.u32()? != 0 {
                return bad("element segment for table != 0");
            }
            let off = const_expr(&mut c, VT::I32, seg_globals)? as i32 as u32;
            let fs = vec_of(&mut c, |c| c.u32())?;
            let (tmin, _) = match table {
                None => return bad("element segment without table"),
                Some(t) => t,
            };
            if fs.len() > 1000 {
                return bad("element segment too long");
            }
            let end = off as u64 + fs.len() as u64;
            if end > tmin as u64 {
                return bad("element segment outside the table");
            }
            for f in fs {
                if f as usize >= funcs.len() {
                    return bad("element refers to unknown function");
                }
            }
        }
        done(&c)?;
    }
    // data
    if let Some(b) = section(&secs, 11) {
        let mut c = Cur::new(b);
        let n = c.u32()?;
        for _ in 0..n {
            if c.u32()? != 0 {
                return bad("data segment for memory != 0");
            }
            let off = const_expr(&mut c, VT::I32, seg_globals)? as i32;
            let len = c.u32()? as usize;
            c.take(len)?;
            let (mmin, _) = match memory {
                None => return bad("data segment without memory"),
                Some(m) => m,
            };
            if off < 0 {
                return bad("negative data offset");
            }
            if off as u64 + len as u64 > mmin as u64 * 65536 {
                return bad("data segment outside the initial memory");
            }
        }
        done(&c)?;
    }
    sum.stage = 4;
    Ok(())
}
