#!/usr/bin/env bash
# setup_cmd: build every engine and every sanitizer tier offline, from files on disk only.
set -u
cd "$(dirname "${BASH_SOURCE[0]}")"
rc=0
for id in $(python3 -c "import json;print(' '.join(sorted({c['property_id'] for c in json.load(open('MANIFEST.json'))['checks']})))"); do
  ./vcheck "$id" --build-only || rc=1
done
exit $rc
