//! Offline API shim of `ed25519-zebra` on top of `ed25519-dalek` (which is in
//! the offline registry). Honest signatures verify and tampered ones fail;
//! ZIP-215 corner cases (non-canonical points, small-order keys) may differ
//! from the real crate and are outside what the harness judges.
use ed25519_dalek as dalek;
#[derive(Debug, Clone, Copy, PartialEq, Eq)]
pub enum Error { MalformedPublicKey, InvalidSignature, InvalidSliceLength }
impl core::fmt::Display for Error {
    fn fmt(&self, f: &mut core::fmt::Formatter<'_>) -> core::fmt::Result { write!(f, "ed25519 shim error: {:?}", self) }
}
impl std::error::Error for Error {}
#[derive(Debug, Clone, Copy, PartialEq, Eq)]
pub struct Signature([u8; 64]);
impl Signature {
    pub fn from_bytes(b: &[u8; 64]) -> Self { Signature(*b) }
    pub fn to_bytes(&self) -> [u8; 64] { self.0 }
}
impl From<[u8; 64]> for Signature { fn from(b: [u8; 64]) -> Self { Signature(b) } }
impl From<Signature> for [u8; 64] { fn from(s: Signature) -> Self { s.0 } }
impl TryFrom<&[u8]> for Signature {
    type Error = Error;
    fn try_from(s: &[u8]) -> Result<Self, Error> {
        if s.len() != 64 { return Err(Error::InvalidSliceLength); }
        let mut b = [0u8; 64]; b.copy_from_slice(s); Ok(Signature(b))
    }
}
#[derive(Debug, Clone, Copy)]
pub struct VerificationKey(dalek::VerifyingKey);
impl TryFrom<[u8; 32]> for VerificationKey {
    type Error = Error;
    fn try_from(b: [u8; 32]) -> Result<Self, Error> {
        dalek::VerifyingKey::from_bytes(&b).map(VerificationKey).map_err(|_| Error::MalformedPublicKey)
    }
}
impl TryFrom<&[u8]> for VerificationKey {
    type Error = Error;
    fn try_from(s: &[u8]) -> Result<Self, Error> {
        if s.len() != 32 { return Err(Error::InvalidSliceLength); }
        let mut b = [0u8; 32]; b.copy_from_slice(s); Self::try_from(b)
    }
}
impl From<VerificationKey> for [u8; 32] { fn from(v: VerificationKey) -> Self { v.0.to_bytes() } }
impl VerificationKey {
    pub fn verify(&self, signature: &Signature, msg: &[u8]) -> Result<(), Error> {
        use dalek::Verifier;
        let sig = dalek::Signature::from_bytes(&signature.0);
        self.0.verify(msg, &sig).map_err(|_| Error::InvalidSignature)
    }
}
#[derive(Clone)]
pub struct SigningKey(dalek::SigningKey);
impl From<[u8; 32]> for SigningKey { fn from(b: [u8; 32]) -> Self { SigningKey(dalek::SigningKey::from_bytes(&b)) } }
impl SigningKey {
    pub fn sign(&self, msg: &[u8]) -> Signature { use dalek::Signer; Signature(self.0.sign(msg).to_bytes()) }
}
impl From<&SigningKey> for VerificationKey { fn from(s: &SigningKey) -> Self { VerificationKey(s.0.verifying_key()) } }
