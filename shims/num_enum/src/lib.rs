//! Offline shim of the `num_enum` crate: only what concordium-wasm uses.
pub use num_enum_derive::TryFromPrimitive;
use core::fmt;
pub trait TryFromPrimitive: Sized {
    type Primitive: Copy + Eq + fmt::Debug;
    const NAME: &'static str;
    fn try_from_primitive(number: Self::Primitive) -> Result<Self, TryFromPrimitiveError<Self>>;
}
pub struct TryFromPrimitiveError<Enum: TryFromPrimitive> {
    pub number: Enum::Primitive,
}
impl<Enum: TryFromPrimitive> fmt::Debug for TryFromPrimitiveError<Enum> {
    fn fmt(&self, f: &mut fmt::Formatter<'_>) -> fmt::Result {
        f.debug_struct("TryFromPrimitiveError").field("number", &self.number).finish()
    }
}
impl<Enum: TryFromPrimitive> fmt::Display for TryFromPrimitiveError<Enum> {
    fn fmt(&self, f: &mut fmt::Formatter<'_>) -> fmt::Result {
        write!(f, "No discriminant in enum `{}` matches the value `{:?}`", Enum::NAME, self.number)
    }
}
impl<Enum: TryFromPrimitive> std::error::Error for TryFromPrimitiveError<Enum> {}
