use proc_macro::TokenStream;
use quote::{format_ident, quote};
use syn::{parse_macro_input, Data, DeriveInput};

#[proc_macro_derive(TryFromPrimitive, attributes(num_enum))]
pub fn derive_try_from_primitive(input: TokenStream) -> TokenStream {
    let input = parse_macro_input!(input as DeriveInput);
    let name = &input.ident;
    let mut repr = None;
    for a in &input.attrs {
        if a.path().is_ident("repr") {
            let _ = a.parse_nested_meta(|m| {
                if let Some(i) = m.path.get_ident() {
                    repr = Some(i.clone());
                }
                Ok(())
            });
        }
    }
    let repr = repr.expect("num_enum shim: #[repr(..)] required");
    let data = match &input.data {
        Data::Enum(e) => e,
        _ => panic!("num_enum shim: only enums supported"),
    };
    let mut consts = Vec::new();
    let mut arms = Vec::new();
    for v in &data.variants {
        assert!(v.fields.is_empty(), "num_enum shim: only unit variants supported");
        let vi = &v.ident;
        let ci = format_ident!("__NUM_ENUM_{}", vi);
        consts.push(quote! { const #ci: #repr = #name::#vi as #repr; });
        arms.push(quote! { #ci => ::core::result::Result::Ok(#name::#vi), });
    }
    let name_str = name.to_string();
    let out = quote! {
        impl ::num_enum::TryFromPrimitive for #name {
            type Primitive = #repr;
            const NAME: &'static str = #name_str;
            fn try_from_primitive(number: #repr) -> ::core::result::Result<Self, ::num_enum::TryFromPrimitiveError<Self>> {
                #![allow(non_upper_case_globals)]
                #(#consts)*
                match number {
                    #(#arms)*
                    _ => ::core::result::Result::Err(::num_enum::TryFromPrimitiveError { number }),
                }
            }
        }
        impl ::core::convert::TryFrom<#repr> for #name {
            type Error = ::num_enum::TryFromPrimitiveError<Self>;
            #[inline]
            fn try_from(number: #repr) -> ::core::result::Result<Self, Self::Error> {
                ::num_enum::TryFromPrimitive::try_from_primitive(number)
            }
        }
    };
    out.into()
}
