//! Offline API shim of `secp256k1` (the real crate wraps a C library that is
//! not available in the sandbox). Parsing enforces lengths only and
//! verification always fails. Only the type-level surface the engine uses.
use core::marker::PhantomData;
#[derive(Debug, Clone, Copy, PartialEq, Eq)]
pub enum Error { IncorrectSignature, InvalidMessage, InvalidPublicKey, InvalidSignature, InvalidSecretKey }
impl core::fmt::Display for Error {
    fn fmt(&self, f: &mut core::fmt::Formatter<'_>) -> core::fmt::Result { write!(f, "secp256k1 shim error: {:?}", self) }
}
impl std::error::Error for Error {}
pub struct VerifyOnly;
pub struct SignOnly;
pub struct All;
pub trait Verification {}
impl Verification for VerifyOnly {}
impl Verification for All {}
pub struct Secp256k1<C> { _c: PhantomData<C> }
impl Secp256k1<VerifyOnly> { pub fn verification_only() -> Self { Secp256k1 { _c: PhantomData } } }
impl Secp256k1<All> { pub fn new() -> Self { Secp256k1 { _c: PhantomData } } }
impl<C: Verification> Secp256k1<C> {
    pub fn verify_ecdsa(&self, _msg: &Message, _sig: &ecdsa::Signature, _pk: &PublicKey) -> Result<(), Error> {
        Err(Error::IncorrectSignature)
    }
}
#[derive(Debug, Clone, Copy, PartialEq, Eq)]
pub struct Message([u8; 32]);
impl Message {
    pub fn from_slice(data: &[u8]) -> Result<Message, Error> {
        if data.len() != 32 { return Err(Error::InvalidMessage); }
        let mut b = [0u8; 32]; b.copy_from_slice(data); Ok(Message(b))
    }
}
#[derive(Debug, Clone, Copy, PartialEq, Eq)]
pub struct PublicKey([u8; 33]);
impl PublicKey {
    pub fn from_slice(data: &[u8]) -> Result<PublicKey, Error> {
        if data.len() != 33 || (data[0] != 2 && data[0] != 3) { return Err(Error::InvalidPublicKey); }
        let mut b = [0u8; 33]; b.copy_from_slice(data); Ok(PublicKey(b))
    }
}
pub mod ecdsa {
    use super::Error;
    #[derive(Debug, Clone, Copy, PartialEq, Eq)]
    pub struct Signature([u8; 64]);
    impl Signature {
        pub fn from_compact(data: &[u8]) -> Result<Signature, Error> {
            if data.len() != 64 { return Err(Error::InvalidSignature); }
            let mut b = [0u8; 64]; b.copy_from_slice(data); Ok(Signature(b))
        }
    }
}
