//! Offline shim of the `slab` crate: same observable behaviour for the subset
//! of the API used by concordium-smart-contract-engine.
#[derive(Clone, Debug)]
enum Entry<T> {
    Vacant(usize),
    Occupied(T),
}
#[derive(Clone, Debug)]
pub struct Slab<T> {
    entries: Vec<Entry<T>>,
    len: usize,
    next: usize,
}
impl<T> Default for Slab<T> {
    fn default() -> Self { Self::new() }
}
impl<T> Slab<T> {
    pub const fn new() -> Self { Slab { entries: Vec::new(), len: 0, next: 0 } }
    pub fn with_capacity(c: usize) -> Self { Slab { entries: Vec::with_capacity(c), len: 0, next: 0 } }
    pub fn len(&self) -> usize { self.len }
    pub fn is_empty(&self) -> bool { self.len == 0 }
    pub fn capacity(&self) -> usize { self.entries.capacity() }
    pub fn clear(&mut self) { self.entries.clear(); self.len = 0; self.next = 0; }
    pub fn get(&self, key: usize) -> Option<&T> {
        match self.entries.get(key) { Some(Entry::Occupied(v)) => Some(v), _ => None }
    }
    pub fn get_mut(&mut self, key: usize) -> Option<&mut T> {
        match self.entries.get_mut(key) { Some(Entry::Occupied(v)) => Some(v), _ => None }
    }
    /// # Safety
    /// `key` must be occupied.
    pub unsafe fn get_unchecked(&self, key: usize) -> &T {
        match self.entries.get(key) { Some(Entry::Occupied(v)) => v, _ => panic!("slab shim: get_unchecked on vacant key {}", key) }
    }
    /// # Safety
    /// `key` must be occupied.
    pub unsafe fn get_unchecked_mut(&mut self, key: usize) -> &mut T {
        match self.entries.get_mut(key) { Some(Entry::Occupied(v)) => v, _ => panic!("slab shim: get_unchecked_mut on vacant key {}", key) }
    }
    pub fn contains(&self, key: usize) -> bool { matches!(self.entries.get(key), Some(Entry::Occupied(_))) }
    pub fn insert(&mut self, val: T) -> usize {
        let key = self.next;
        self.len += 1;
        if key == self.entries.len() {
            self.entries.push(Entry::Occupied(val));
            self.next = key + 1;
        } else {
            self.next = match self.entries.get(key) { Some(&Entry::Vacant(n)) => n, _ => unreachable!() };
            self.entries[key] = Entry::Occupied(val);
        }
        key
    }
    pub fn try_remove(&mut self, key: usize) -> Option<T> {
        if let Some(e) = self.entries.get_mut(key) {
            let prev = core::mem::replace(e, Entry::Vacant(self.next));
            match prev {
                Entry::Occupied(v) => { self.len -= 1; self.next = key; return Some(v); }
                _ => { *e = prev; }
            }
        }
        None
    }
    pub fn remove(&mut self, key: usize) -> T { self.try_remove(key).expect("invalid key") }
    pub fn iter(&self) -> impl Iterator<Item = (usize, &T)> {
        self.entries.iter().enumerate().filter_map(|(i, e)| match e { Entry::Occupied(v) => Some((i, v)), _ => None })
    }
}
