#!/usr/bin/env bash
# confirm_seed.sh <seeded-dir>...   Re-run a seeded change's demonstration in a scratch
# worktree: must FAIL with the patch applied and PASS without it. Writes
# <seeded-dir>/confirm.txt. Scratch: /tmp/confirm (worktree + shared target dir).
set -u
C=${CONFIRM_DIR:-/tmp/confirm}
# CONFIRM_PROFILE=debug builds the demonstration with the dev profile (quicker to build, slower to run)
if [ "${CONFIRM_PROFILE:-release}" = debug ]; then REL=""; OUTD=debug; else REL="--release"; OUTD=release; fi
mkdir -p $C
if [ ! -e "$C/repo/.git" ]; then git -C /repo worktree add -q --detach "$C/repo" HEAD || exit 2; fi
for S in "$@"; do
  S=$(cd "$S" && pwd)
  name=$(basename "$S")
  out="$S/confirm.txt"; : > "$out"
  git -C "$C/repo" checkout -q --detach "$(git -C /repo rev-parse HEAD)"; git -C "$C/repo" checkout -q -- .; git -C "$C/repo" clean -fdq
  rm -rf "$C/demo"; cp -r "$S/demo" "$C/demo"
  # point the demo at the scratch worktree
  grep -rl "/tmp/wt[0-9]*-c[0-9][0-9]" "$C/demo" --include=Cargo.toml --include='*.rs' --include='*.sh' 2>/dev/null | xargs -r sed -i -E "s#/tmp/wt[0-9]*-c[0-9]+#$C/repo#g"
  [ -f "$C/demo/Cargo.lock" ] || cp /tmp/buildkit/Cargo.lock "$C/demo/Cargo.lock"
  bin=$(grep -m1 -E '^name *= *"' "$C/demo/Cargo.toml" | sed -E 's/.*"(.*)".*/\1/')
  run() { ( cd "$C/demo" && CARGO_NET_OFFLINE=true RUSTFLAGS="--cfg concordium_base_verif" timeout 2400 cargo build --offline $REL --target-dir "$C/target" >"$C/build.log" 2>&1 || exit 99; timeout ${CONFIRM_RUN_TIMEOUT:-900} "$C/target/$OUTD/$bin" >"$C/run.log" 2>&1 ); echo $?; }
  git -C "$C/repo" apply "$S/patch.diff" || { echo "$name: patch does not apply" | tee -a "$out"; continue; }
  rc_changed=$(run); tail -3 "$C/run.log" > "$C/changed.tail" 2>/dev/null
  git -C "$C/repo" checkout -q -- .
  rc_unchanged=$(run)
  verdict=NOT-CONFIRMED; [ "$rc_changed" != 0 ] && [ "$rc_changed" != 99 ] && [ "$rc_changed" != 124 ] && [ "$rc_unchanged" = 0 ] && verdict=CONFIRMED
  grep -q "^error" "$C/build.log" && verdict="$verdict(build-error-in-last-build)"
  { echo "$name: demo exit with patch=$rc_changed, without patch=$rc_unchanged => $verdict"; echo "last lines with patch:"; cat "$C/changed.tail" 2>/dev/null; } | tee -a "$out"
done
