#!/usr/bin/env python3
"""Regenerate /verif/MANIFEST.json from the table below (run from anywhere)."""
import json, os
ROOT = os.path.dirname(os.path.dirname(os.path.abspath(__file__)))
props = [json.loads(l) for l in open(os.path.join(ROOT, "properties.jsonl"))]

HOOK_COMMITS = ["865f35525", "684e2d74e"]

ENGINES = {
 "eng-wasm": "differential/runtime monitors for the Wasm parser, validator, compiler, metering and interpreter (reference interpreter, reference validator, H1 interpreter hooks, ASan, Miri)",
 "eng-trie": "shadow-model, reference-hash and interface-model monitors for the v1 contract state trie (H2 hooks, ASan, Miri)",
 "eng-host": "script-to-contract compiler and reference model of the v0/v1 host interfaces",
 "eng-codec": "round-trip / canonicity / totality / allocation monitors for binary, schema-JSON and CBOR codecs",
 "eng-crypto": "completeness / binding / ground-truth monitors for sigma protocols, bulletproofs, identity credentials and presentations",
 "eng-sig": "threshold-policy predicate, construction-history and independent-reimplementation monitors for signatures, group arithmetic, key derivation and encrypted amounts",
}

# property -> (engine, technique, level text, level note, design ref)
CLAIMED = {
 "C01": ("eng-wasm", "differential execution against an independent reference interpreter + H1 bounds hooks + ASan + Miri",
   "Exploration: generated valid modules are executed on every export under plain/metered-V0/metered-V1 artifacts and every outcome (result, full memory, globals via wrapper, trap/no trap) is compared with an independent reference interpreter; part of the corpus is re-run under AddressSanitizer and (memory-less modules) under Miri. Held on the executions reported in the evidence, nothing more.",
   "Trusted: harness Wasm encoder, reference interpreter and generator (wasmref); shim crates for four unavailable dependencies; floating point and multi-value are outside the accepted language."),
 "C02": ("eng-wasm", "energy event log vs transcribed cost schedule, H1 charge-window monitor, budget sweeps",
   "Exploration: for metered executions the host-observed energy is compared with an independent transcription of the V0/V1 cost schedules summed over the instructions the reference interpreter executed (exact on success, lower bound on trap); memory-growth announcements, determinism, the no-free-cycle charge-window invariant and step bound (H1 hook), and budget sweeps (larger budget changes only the remainder; smaller budget ends in out-of-energy at once) are judged per execution.",
   "Trusted: cost schedule transcription in wasmref::refint (a changed protocol constant is reported on purpose); outcome conformance itself is C01's verdict."),
 "C09": ("eng-wasm", "differential classification against an independent reference validator; panic/allocation/bounds-hook monitors; ASan + Miri",
   "Exploration: byte strings (valid modules, boundary modules on/over each documented limit, instruction-, LEB128-, section- and byte-level mutants, random bytes) are classified by the engine and by an independent decoder+validator written from the Wasm 1.0 spec and the documented chain restrictions; disagreement in either direction, a panic, an allocation beyond 4096*len+4MiB, validated-but-uncompilable modules and bounds-hook trips while executing accepted modules are violations.",
   "Trusted: wasmref::valid (reference validator). Not judged: cases where two readings of 'stack height' disagree at the 1024 bound; the import allow-list table."),
 "C13": ("eng-wasm", "three-way differential (owned / zero-copy at odd address / reloaded) and interrupt-resume vs uninterrupted run; ASan + Miri",
   "Exploration: each artifact is serialised, re-parsed zero-copy at an odd address and converted back to owned; re-serialisation must be byte-identical and all three forms must agree on result, trap, memory, energy, growth announcements and host-call log for every execution; executions interrupted at all / each of the first five / random subsets of host call sites (including nested call depth) and resumed must end like the uninterrupted one.",
   "Trusted: the harness host implementations (one specification, two implementations). parse_artifact on untrusted bytes is outside the claim. Chain-level interrupt/resume (v1::invoke_receive) is covered by eng-host where built."),
 "C03": ("eng-trie", "shadow model (BTreeMap) updated with every call + full read-back through independent read paths + structure walker; ASan + Miri",
   "Exploration: operation histories over an adversarial key space run on the real MutableState/MutableTrie and on a BTreeMap model; every return value is compared at once, and at quiescent points the whole contents are read back through entry lookups (incl. near-miss keys), prefix iteration, and after freeze through persistent lookup/iteration; checkpoints are taken in both calling orders, rollbacks must restore the checkpoint and ancestors' persistent states must not change.",
   "Trusted: the BTreeMap model and the H2 wrappers (add-only). Entry handles are only used within the generation that produced them."),
 "C04": ("eng-trie", "independent reference hash over the canonical radix tree + history-independence + persistence-chain monitors + pinned vectors; Miri",
   "Exploration: each contents set is built through five different histories and a random chain of store/reload, cache, serialize/deserialize, migrate, refreeze; every resulting state must hash to an independently computed reference hash (own nibble splitting and Merkle construction), read back equal, and refreezing an unmodified state must collect 0 bytes; six pinned (contents -> hash, serialisation digest) vectors catch self-consistent format changes.",
   "Trusted: refhash.rs; pinned vectors were generated from the tree at the time the check was written."),
 "C15": ("eng-trie", "interface model (contents + lock multiset + handle table with generation counter) predicting every InstanceState return code",
   "Exploration: interleavings of create/delete/delete_prefix/lookup, up to six simultaneous iterators on equal, nested and disjoint prefixes, iterator next/delete/key reads and entry read/write/size/resize through valid, stale, forged and wrong-generation handles, in segments separated by interrupts (unchanged / nested change rolled back / changed) run on the real InstanceState; every return code is predicted by a model written from the documentation; at each quiescent point the lock map must hold exactly one reference per live iterator.",
   "Trusted: the interface model in c15.rs and the H2 wrappers. Handles to entries overwritten (not deleted) by create_entry are not judged."),
 "C07": ("eng-crypto", "completeness + single-component perturbation + recording-transcript binding audit + framing-injectivity monitors over executions of the real provers/verifiers",
   "Exploration: for every reachable sigma protocol and the AND/replicated adapters, instances are built from random witnesses, proved and verified (completeness); every statement field, the context, the challenge and every response component is perturbed one at a time and verification must fail; a recording implementation of the transcript trait checks that every public statement field (down to leaf components) changes the byte stream and the challenge; generated pairs of distinct V1 transcript operation sequences must give different challenges. Soundness is only probed with the cheating strategies that are implemented.",
   "Trusted: instance builders in c07.rs. Open known finding F6 (ComEncEq omits a public generator from the transcript) is listed in known_findings.json. dlogeq/dlogaggequal are private modules and not reachable; synthetic sequences are not checked on the legacy (unframed) oracle."),
 "C08": ("eng-crypto", "pipeline executions with accept / reconstruct / single-field-perturbation oracles",
   "Exploration: identity pipelines (IP with 1-6 revokers, all thresholds, attribute lists, policies, counters 0..max, v0/v1 identity objects, new/existing accounts, minimal-length IP keys) are run end to end; honest objects must be accepted at every stage, every subset of >= threshold revokers must reconstruct the holder's id_cred_pub (and PRF key for v0) while threshold-1 shares must not, and 33 kinds of single-field perturbations of the credential, a counter above the limit, and foreign IP/AR/global keys must be rejected by verify_cdi.",
   "Trusted: the library's own fixtures (feature internal-test-helpers) for key material. Some library functions draw from thread_rng, so only configurations (not exact bytes) replay; witnesses carry the credential bytes. Verifier panics on shortened range proofs (observation O5) are counted as rejection."),
 "C11": ("eng-crypto", "ground-truth integer arithmetic vs prover/verifier outcomes + single-component perturbations",
   "Exploration: range proofs for n in {1..64 powers of two} and batch sizes 1-8, the derived <=, in-range, set membership and non-membership statements are generated at and around their boundaries; true statements must prove and verify, false statements (including values fed through the scalar-level prover) must not, and every proof component, commitment, bit width, generator vector and transcript domain is perturbed one at a time and must be rejected.",
   "Trusted: harness arithmetic. Non-power-of-two widths are undocumented and only observed. A verifier panic counts as 'does not verify' (observation O5)."),
 "C18": ("eng-crypto", "ground-truth evaluation of atomic statements vs prover/verifier outcomes + single-field perturbations of requests, presentations and contexts",
   "Exploration: attribute statement sets (reveal, range, set, not-in-set at their boundaries, string and numeric attributes) and web3id presentations over account and web3 credentials (with linking proofs) are generated; all-true sets must prove, verify and reveal exactly the committed values, sets with a false statement must not verify, and 15+23 kinds of perturbations of statements, challenge, commitments, metadata and proofs must be rejected.",
   "Trusted: harness evaluation of statements. web3id v1 (web3id/v1/*) and identity_attributes_credentials are not covered; legacy Version1 range proofs are not bound to the context by design and are only observed."),
 "C06": ("eng-sig", "executable threshold-policy predicate + independent recomputation of digests/hashes/sizes/energy + single-bit perturbations",
   "Exploration: access structures with sparse credential/key indices and all thresholds, signer subsets at/below/above thresholds with unknown credentials or keys, invalid and swapped signatures are verified through every public verification entry point (plain and sponsored transactions) and the outcome is compared with a 15-line predicate that checks each signature with ed25519-dalek directly; the sign digest, block-item hash, payload size and energy of constructed transactions and update instructions are recomputed from the serialized bytes; every single-bit change of header, payload, signatures or keys must make verification fail.",
   "Trusted: the predicate in c06.rs. Not judged: maps in which a supplied credential carries fewer signatures than its own threshold while enough other credentials are satisfied (the library rejects them, the property text is silent); the library has no verifier for update instructions, so only the signing side is judged."),
 "C12": ("eng-sig", "ground-truth arithmetic on amounts and chunks + honest/exceeding transfers + single-component perturbations",
   "Exploration: amounts at chunk boundaries are encrypted, aggregated and decrypted with the library's table and compared with integer arithmetic; encrypted and secret-to-public transfers for balance/amount pairs (equal, zero, off by one) must verify and conserve value, transfers exceeding the balance must not be producible, and perturbations of every ciphertext component, key, aggregate index and proof must be rejected.",
   "Trusted: the 32-bit chunk model. Decryption outside the table range and the unbound `index` field (documented) are not judged."),
 "C19": ("eng-sig", "construction-history model (multiset of key/message pairs) vs verifier outcomes + single-bit perturbations",
   "Exploration: BLS signatures, aggregates (sizes up to 151, duplicates, empty set where documented), proofs of possession, VRF proofs and outputs, PS blind issuance/unblinding and the ed25519 dlog proof are produced from known histories; every verifier must accept exactly what the history implies, the three aggregate verifiers must agree on their common domain, VRF outputs must be deterministic, and single-bit flips of signatures, proofs, keys and messages must be rejected.",
   "Trusted: the history model. Rogue-key resistance without proofs of possession and inputs outside documented preconditions are not exercised."),
 "C20": ("eng-sig", "naive reference arithmetic, independent decoder classification (arkworks / curve25519-dalek primitives), Lagrange interpolation with bigints, independent SLIP-10 and BLS KeyGen",
   "Exploration: multi-exponentiation (all window sizes, boundary scalars, repeated and identity points, lengths 0-40) is compared with the sum of scalar multiples; candidate encodings of every class (valid, x >= p, flag errors, infinity and non-canonical infinity, off-curve, wrong subgroup, Ristretto non-canonical forms) are classified independently and must be accepted iff canonical, on-curve and in the subgroup, also through every wrapper type; hash-to-group determinism and membership; every threshold subset of shares must reconstruct the secret in the field and in the exponent and threshold-1 must not; key derivation is compared with an independent SLIP-10 (published vector included) and KeyGen.",
   "Trusted: arkworks/curve25519-dalek primitives and the harness reimplementations. Fixed finding F7 (non-canonical infinity) is fed on every run as regression input."),
 "C14": ("eng-host", "differential between the real host (v0/v1 invoke, interrupts played by the harness) and a reference interpreter with a host-interface model; allocation differential; ASan",
   "Exploration: scripts of v0 and v1 host calls with hostile pointers, lengths, offsets, handles and tags, boundary scripts for every protocol limit, memory growth, crypto primitives and invoke/upgrade interrupts (responses chosen by the harness) are compiled to straight-line Wasm contracts and executed by the real engine with metering for P4..P7 and by the reference interpreter with a model of every host function and the transcribed energy schedule; outcome, return value, logs, v0 state and actions, v1 state contents, state_changed and remaining energy (exact where the schedule is a closed formula) must agree; budget sweeps and charge-before-work runs with an allocation differential check that no proportional work precedes its charge; no execution may panic.",
   "Trusted: the host models model_v0.rs/model_v1.rs and the schedule transcription. Open known finding F9 (copy before charge in get_mut) is listed in known_findings.json. secp256k1 accept path is not observable with the shim; undocumented corners are excluded and counted (skip.undocumented)."),
 "C05": ("eng-codec", "round-trip + re-encode-equals-consumed-bytes canonicity oracle + panic capture + counting-allocator bound over a registry of 216 types, with and without debug assertions",
   "Exploration: for 216 registered Serial+Deserial chain types, values built with the library's own constructors round-trip; their encodings are mutated (bit flips, truncation, extension, inflation of every 1/2/4/8-byte length-like window, tag and bitmap sweeps, splicing) and mixed with random bytes; every successful decode must re-encode to exactly the consumed bytes, no decode may panic, and peak allocation per decode is bounded by 64*len + 4096*element + 2 MiB. Ten per cent of the workload is re-run in a build without debug assertions and overflow checks.",
   "Trusted: the registry's equality notion (HashSet compared as sets; types without PartialEq compared by re-encoding). Ipv4Addr/Ipv6Addr are not chain types and are not registered. Fixed findings F4, F10-F15 are regression inputs."),
 "C10": ("eng-codec", "typed value generator with an independent contract-side encoder and JSON renderer vs schema_json conversions; panic/allocation monitors on hostile bytes",
   "Exploration: schema Types are generated to depth 32 with all constructors and size lengths; for each a typed value is generated from which the harness derives both the JSON form and the expected bytes with its own encoder; serial_value(json) must equal the expected bytes and to_json(bytes) the normalised JSON; hostile (Type, bytes) pairs - including declared byte-list/array lengths up to 2^32-1 - must return an error within counted allocation bounds; generated module schemas of every version round-trip with and without prefix and in base64.",
   "Trusted: the harness encoder/JSON renderer (written from the documented rules). Nesting > 32 and zero-width collections declaring > 2^16 elements are outside the claim (O1, O2). Fixed finding F17 is a regression input."),
 "C16": ("eng-codec", "round-trip/canonicity/allocation oracles for contract-side types + independent grammar recognisers + u128/i128 reference arithmetic + Miri on the unsafe decoders",
   "Exploration: 63 contract-side binary types are round-tripped and decoded from mutated and random bytes (ordered collections must reject duplicate/unordered input where documented); Display/FromStr pairs of amounts, timestamps, durations, addresses and names must round-trip; validators for contract, receive and entrypoint names, amounts, durations and hex keys/signatures are compared with independent recognisers on grammar-generated and mutated strings; checked arithmetic is compared with u128/i128 reference arithmetic; a reduced set of the binary cases is re-run under Miri (unsafe blocks of impls.rs / traits.rs).",
   "Trusted: the recognisers (written from the doc comments). Open known finding F19 (Timestamp text form beyond year 9999 / 2^63 ms) is listed in known_findings.json; duration strings whose total exceeds u64 are outside the claim (O4). Fixed finding F16 is a regression input."),
 "C17": ("eng-codec", "round-trip + determinism + independent CBOR well-formedness/canonical-form checker on encoder output + known-invalid edits on decoder input",
   "Exploration: generic CBOR values (depth <= 64, integers at every head-width boundary, tags, decimal fractions) and 33 protocol-level-token types are encoded, decoded and re-encoded; encoder output is checked by an independent parser for definite lengths, shortest heads and sorted map keys; valid encodings are edited in known-invalid ways (trailing byte, missing mandatory key, undeclared key, wrong major type, truncation, inflated length) and must be rejected unless the type or the options declare otherwise; unknown fields/variants must be preserved where declared; TokenAmount is compared across binary, decimal-string and JSON forms with big-integer arithmetic.",
   "Trusted: the harness CBOR emitter/checker. Nesting > 64 is outside the claim (O3); which non-canonical inputs the (deliberately liberal) decoder accepts is not judged beyond round-trip of what it returns."),
}

REFS = {k: "5/" + k for k in CLAIMED}

m = {
 "version": 1,
 "setup_cmd": "./setup.sh",
 "hooks": {
   "guard": "concordium_base_verif",
   "enable": "RUSTFLAGS=--cfg=concordium_base_verif (set by ./vcheck for every build of /repo's crates)",
   "baseline_off_cmd": "cd /repo/rust-src && (cargo nextest run --workspace --no-fail-fast --tool-config-file pb:/w/lib/nextest.toml --profile pb --test-threads 8 --offline || cargo test --workspace --no-fail-fast --offline)",
   "source_commits": HOOK_COMMITS,
   "add_only": True},
 "engines": [],
 "checks": [],
 "notes": "Technique family: runtime monitoring and sanitizers. Exit codes: 0 held on everything explored, 1 violation (VIOLATION line with replay file), 2 inconclusive. Known findings: known_findings.json.",
 "not_applicable": []
}
served = {}
for pid, c in CLAIMED.items():
    served.setdefault(c[0], []).append(pid)
for e, desc in ENGINES.items():
    if e in served:
        m["engines"].append({"name": e, "path": "harness/" + e, "serves_properties": sorted(served[e]), "kind_free_text": desc})
for p in props:
    i = p["id"]
    if i in CLAIMED:
        eng, tech, text, note = CLAIMED[i]
        m["checks"].append({
          "property_id": i,
          "quick_cmd": f"./vcheck {i} --tier quick",
          "thorough_cmd": f"./vcheck {i} --tier thorough",
          "evidence_file": f"/verif/evidence/{i}.json",
          "replay_cmd_template": f"./vcheck {i} --replay {{path}}",
          "engine": eng,
          "level_claimed": {"category": "exploration", "text": text, "design_ref": REFS[i]},
          "level_note": note,
          "technique": tech})
    else:
        m["not_applicable"].append({"property_id": i, "reason": "monitor not built yet in this session (planned in DESIGN.md section 5); not claimed until its check exists and is silent on the unchanged tree"})
json.dump(m, open(os.path.join(ROOT, "MANIFEST.json"), "w"), indent=1)
print("checks:", [c["property_id"] for c in m["checks"]], "not_applicable:", [n["property_id"] for n in m["not_applicable"]])
