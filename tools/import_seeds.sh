#!/usr/bin/env bash
# import_seeds.sh <ID> <srcdir>   copy <srcdir>/<k>/ (patch.diff, demo/, meta.json, ...) of a breaker
# agent to seeded/<ID>-<n+k>, n = number of changes already kept for <ID>. Build output is not copied.
set -eu
cd "$(dirname "${BASH_SOURCE[0]}")/.."
ID=$1; SRC=$2
n=$(ls -d seeded/$ID-[0-9]* 2>/dev/null | sed -E 's/.*-//' | sort -n | tail -1); n=${n:-0}
for d in $(ls -d $SRC/[0-9]* 2>/dev/null | sort -V); do
  [ -f "$d/patch.diff" ] && [ -d "$d/demo" ] && [ -f "$d/meta.json" ] || { echo "skip $d (incomplete)"; continue; }
  n=$((n+1)); dst=seeded/$ID-$n
  mkdir -p $dst
  rsync -a --exclude target --exclude '*.rlib' "$d/" "$dst/"
  echo "$d -> $dst"
done
