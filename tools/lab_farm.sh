#!/usr/bin/env bash
# lab_farm.sh <lab-dir> <logfile> <seeded-name>...   screen seeded changes one after the other in one
# mutlab directory (own worktree + own target dir); log format is what seed_results.py reads.
# Checks run: the property of the change (first component of its name); extra checks: EXTRA="C05 C14".
set -u
cd "$(dirname "${BASH_SOURCE[0]}")/.."
LAB=$1; LOG=$2; shift 2
for name in "$@"; do
  id=${name%%-*}
  echo "#### $name -> $id ${EXTRA:-}" >> "$LOG"
  MUTLAB=$LAB VMON_SKIP_SAN=1 VMON_SCALE=${VMON_SCALE:-0.5} timeout 3000 tools/mutlab.sh "$PWD/seeded/$name/patch.diff" $id ${EXTRA:-} >> "$LOG" 2>&1
done
echo "#### done" >> "$LOG"
