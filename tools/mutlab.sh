#!/usr/bin/env bash
# mutlab.sh <patch.diff|-> <ID> [<ID>...]   (env: TIER=quick|thorough, VERIF_SEED, VMON_SCALE)
#
# Run checks against a *copy* of /repo with a patch applied, without touching
# /repo itself (other builds may be reading it). The copy is a git worktree of
# /repo's HEAD under /tmp/mutlab/repo; the harness is copied to
# /tmp/mutlab/verif with its path dependencies rewritten to that worktree.
# "-" as patch means the unmodified tree. Build output: /tmp/mutlab/target.
# MUTLAB=<dir> selects another scratch directory (one per concurrent user). Remove with: git -C /repo worktree remove --force $MUTLAB/repo; rm -rf $MUTLAB
set -u
PATCH="$1"; shift
LAB=${MUTLAB:-/tmp/mutlab}
SRC="$(cd "$(dirname "${BASH_SOURCE[0]}")/.." && pwd)"
mkdir -p "$LAB"
if [ ! -d "$LAB/repo/.git" ] && [ ! -f "$LAB/repo/.git" ]; then
  git -C /repo worktree add -q --detach "$LAB/repo" HEAD || exit 2
fi
git -C "$LAB/repo" checkout -q --detach "$(git -C /repo rev-parse HEAD)" 2>/dev/null
git -C "$LAB/repo" checkout -q -- . && git -C "$LAB/repo" clean -fdq -e target
if [ "$PATCH" != "-" ]; then
  git -C "$LAB/repo" apply "$PATCH" || { echo "patch does not apply"; exit 2; }
fi
mkdir -p "$LAB/verif"
rsync -a --delete --exclude 'target*' --exclude run --exclude replays --exclude evidence --exclude .git "$SRC/" "$LAB/verif/"
find "$LAB/verif/harness" -name Cargo.toml -exec sed -i "s#\"/repo/#\"$LAB/repo/#g" {} +
rc=0
for id in "$@"; do
  echo "== $id (patch: $PATCH)"
  ( cd "$LAB/verif" && VERIF_TARGET="$LAB/target" ./vcheck "$id" --tier "${TIER:-quick}" ) 2>&1 | grep -E "^VIOLATION|^KNOWN-FINDING|^INCONCLUSIVE|^eng-|^  kind=" | cut -c1-400 | head -${LINES_MAX:-12}
  r=${PIPESTATUS[0]}
  echo "== $id exit=$r"
  [ "$r" != 0 ] && rc=1
done
exit $rc
