#!/usr/bin/env python3
"""Collect the outcome of the seeded-change screening from the mutlab logs and the confirmation
logs into seeded/RESULTS.json and seeded/<name>/verdict.json.
usage: seed_results.py <screening logs...> -- <confirmation logs...>"""
import json, re, sys, os, glob
ROOT = os.path.dirname(os.path.dirname(os.path.abspath(__file__)))
args = sys.argv[1:]
sep = args.index('--') if '--' in args else len(args)
screen, confirm = args[:sep], args[sep+1:]
runs = {}   # seed -> list of (check, exit, logfile) in order
for lf in screen:
    cur = None; ids = []
    for line in open(lf, errors='replace'):
        m = re.match(r'#### (\S+) -> (\S+)', line)
        if m: cur = m.group(1); continue
        m = re.match(r'== (C\d+) exit=(\d+)', line)
        if m and cur:
            runs.setdefault(cur, []).append((m.group(1), int(m.group(2)), os.path.basename(lf)))
conf = {}
for lf in confirm:
    for line in open(lf, errors='replace'):
        m = re.match(r'(\S+): demo exit with patch=(\d+), without patch=(\d+) => (\S+)', line)
        if m: conf[m.group(1)] = {"with_patch_exit": int(m.group(2)), "without_patch_exit": int(m.group(3)), "verdict": m.group(4)}
res = {}
try: old = json.load(open(os.path.join(ROOT, 'seeded', 'RESULTS.json')))
except Exception: old = {}
def keyf(d):
    n = os.path.basename(d); a, b = n.split('-'); return (a, int(b))
for d in sorted(glob.glob(os.path.join(ROOT, 'seeded', 'C*-[0-9]*')), key=keyf):
    name = os.path.basename(d)
    meta = json.load(open(os.path.join(d, 'meta.json')))
    prev = old.get(name, {})
    rr = [(x["check"], x["exit"], x["log"]) for x in prev.get("screening_runs", [])] + [x for x in runs.get(name, [])]
    seen = set(); rr = [x for x in rr if not (x in seen or seen.add(x))]   # re-reading a log must not duplicate its runs
    caught = sorted({c for c, e, _ in rr if e == 1})
    first = rr[0] if rr else None
    v = {
        "property": meta.get("property", name.split('-')[0]),
        "title": meta.get("title", ""),
        "needs_to_manifest": meta.get("needs_to_manifest", ""),
        "demonstration": conf.get(name, prev.get("demonstration", {"verdict": "not re-run yet"})),
        "screening_runs": [{"check": c, "exit": e, "log": l} for c, e, l in rr],
        "caught_by": caught,
        "caught_on_first_screening": bool(first and first[1] == 1),
        "what_was_run": "tools/confirm_seed.sh (demonstration with and without the patch in a scratch worktree); tools/mutlab.sh <patch> <check> (quick tier, sanitizer tiers skipped, VMON_SCALE 0.4-0.5) against a patched copy of /repo",
    }
    res[name] = v
    json.dump(v, open(os.path.join(d, 'verdict.json'), 'w'), indent=1)
json.dump(res, open(os.path.join(ROOT, 'seeded', 'RESULTS.json'), 'w'), indent=1)
for n, v in res.items():
    print(f"{n:7s} demo={v['demonstration'].get('verdict'):22s} caught_by={','.join(v['caught_by']) or '-':8s} first={v['caught_on_first_screening']}  {v['title'][:70]}")
