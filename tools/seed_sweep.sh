#!/usr/bin/env bash
# seed_sweep.sh <tier> <seed>...  : run every claimed check at the given seeds, print one line each
cd "$(dirname "${BASH_SOURCE[0]}")/.."
TIER=$1; shift
IDS=$(python3 -c "import json;print(' '.join(c['property_id'] for c in json.load(open('MANIFEST.json'))['checks']))")
for s in "$@"; do
  for id in $IDS; do
    out=$(VERIF_SEED=$s ./vcheck $id --tier $TIER 2>&1); rc=$?
    echo "seed=$s $id exit=$rc $(echo "$out" | grep -E '^eng-' | tail -1 | cut -c1-200)"
    [ $rc != 0 ] && echo "$out" | grep -E "^VIOLATION|^INCONCLUSIVE|^  kind" | head -5 | cut -c1-300
  done
done
