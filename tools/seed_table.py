#!/usr/bin/env python3
"""Rewrite the seeded-changes table of DESIGN.md (between the SEEDED-TABLE markers) from seeded/RESULTS.json."""
import json, os, re
ROOT = os.path.dirname(os.path.dirname(os.path.abspath(__file__)))
res = json.load(open(os.path.join(ROOT, 'seeded', 'RESULTS.json')))
rows = ["| change | what it breaks / needs to manifest | demonstration re-run | caught by | first screening |", "|---|---|---|---|---|"]
def key(n):
    p, k = n.split('-'); return (int(p[1:]), int(k))
for n in sorted(res, key=key):
    v = res[n]
    t = v['title'].replace('|', '\\|')
    need = v['needs_to_manifest'].replace('|', '\\|').replace('\n', ' ')
    if len(need) > 220: need = need[:217] + '...'
    demo = v['demonstration'].get('verdict', '?')
    caught = ', '.join(v['caught_by']) or '**not caught**'
    first = 'caught' if v['caught_on_first_screening'] else ('missed, check strengthened' if v['caught_by'] else 'missed')
    rows.append(f"| {n} | {t}. Needs: {need} | {demo} | {caught} | {first} |")
table = "\n".join(rows)
p = os.path.join(ROOT, 'DESIGN.md')
s = open(p).read()
a, b = '<!-- SEEDED-TABLE-BEGIN -->', '<!-- SEEDED-TABLE-END -->'
if a in s:
    s = s[:s.index(a) + len(a)] + "\n" + table + "\n" + s[s.index(b):]
else:
    s = s.rstrip('\n') + f"\n\n{a}\n{table}\n{b}\n"
open(p, 'w').write(s)
n_total = len(res); n_caught = sum(1 for v in res.values() if v['caught_by']); n_first = sum(1 for v in res.values() if v['caught_on_first_screening'])
print(f"{n_total} seeded changes, {n_caught} caught, {n_first} on the first screening")
